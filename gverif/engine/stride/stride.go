// Package stride implements the STRIDE engine: leading-dimension /
// increment association ("units"). See DESIGN.md §3.2.
//
// Every stride source has an owner: the slice parameter it is paired with
// by the BLAS/LAPACK calling convention (S1), or the access path P of a
// P.Stride / P.Inc selector (S2). Integer locals get the set of owners of
// the strides that flow into them (flow-insensitive fixpoint). An index or
// slice bound of an owned base may only carry that base's own unit, and at
// a call a (slice, stride) argument pair must agree.
package stride

import (
	"fmt"
	"go/ast"
	"go/token"
	"go/types"
	"sort"
	"strings"

	"gverif/cfgx"
	"gverif/core"

	"golang.org/x/tools/go/packages"
	"golang.org/x/tools/go/types/typeutil"
)

// isStrideName reports whether a parameter name follows the ld*/inc*
// convention and returns the operand suffix in lower case.
func isStrideName(n string) (string, bool) {
	l := strings.ToLower(n)
	switch {
	case strings.HasPrefix(l, "ld") && len(l) > 2:
		return l[2:], true
	case strings.HasPrefix(l, "inc") && len(l) > 3:
		return l[3:], true
	case l == "inc", l == "incx", l == "incy":
		return strings.TrimPrefix(l, "inc"), true
	}
	return "", false
}

func isIntLike(t types.Type) bool {
	b, ok := t.Underlying().(*types.Basic)
	return ok && b.Info()&types.IsInteger != 0
}

func isSlice(t types.Type) bool {
	_, ok := t.Underlying().(*types.Slice)
	return ok
}

// sigPairs returns, for a signature, the indices i such that param i is a
// slice and param i+1 is its stride by adjacency, plus name-based pairs for
// non-adjacent conventions (kernels).
func sigPairs(sig *types.Signature) (adj map[int]int, byName map[int]int) {
	adj = map[int]int{}
	byName = map[int]int{}
	ps := sig.Params()
	for i := 0; i+1 < ps.Len(); i++ {
		if !isSlice(ps.At(i).Type()) {
			continue
		}
		n := ps.At(i + 1)
		if !isIntLike(n.Type()) {
			continue
		}
		if _, ok := isStrideName(n.Name()); ok {
			adj[i] = i + 1
		}
	}
	for j := 0; j < ps.Len(); j++ {
		p := ps.At(j)
		if !isIntLike(p.Type()) {
			continue
		}
		suf, ok := isStrideName(p.Name())
		if !ok || suf == "" {
			continue
		}
		for i := 0; i < ps.Len(); i++ {
			if isSlice(ps.At(i).Type()) && strings.ToLower(ps.At(i).Name()) == suf {
				byName[i] = j
			}
		}
	}
	return
}

// dataStruct reports whether t is a struct with a slice field Data and an
// integer field Stride or Inc (blas64.General, Vector, Band, ... and their
// 32-bit / complex siblings).
func dataStruct(t types.Type) bool {
	if p, ok := t.Underlying().(*types.Pointer); ok {
		t = p.Elem()
	}
	st, ok := t.Underlying().(*types.Struct)
	if !ok {
		return false
	}
	hasData, hasStride := false, false
	for i := 0; i < st.NumFields(); i++ {
		f := st.Field(i)
		switch f.Name() {
		case "Data":
			hasData = isSlice(f.Type())
		case "Stride", "Inc":
			hasStride = hasStride || isIntLike(f.Type())
		}
	}
	return hasData && hasStride
}

type funcAnalysis struct {
	pkg    *packages.Package
	info   *types.Info
	name   string
	res    *core.Result
	objIDs map[types.Object]int
	// S1 owners
	sliceOwner  map[types.Object]string // slice param -> owner key
	strideOwner map[types.Object]string // stride param -> owner key
	unpaired    map[types.Object]bool   // slice param with no stride
	units       map[types.Object]map[string]bool
	ownerName   map[string]string
	alias       map[types.Object]ast.Expr
	inAlias     map[types.Object]bool
	// incFlags: boolean locals defined from a test of P.Inc (fast := x.Inc == 1 && ...)
	incFlags map[types.Object]map[string]bool
	// workBlocks: "work[off:]" -> leading dimensions it is used with
	workBlocks map[string][]workUse
}

// findAliases records locals of Data/Stride struct type that are defined
// once from an access path and never assigned again (as a whole or by
// field): they are names for that path.
func (fa *funcAnalysis) findAliases(body ast.Node) {
	defs := map[types.Object][]ast.Expr{}
	dirty := map[types.Object]bool{}
	note := func(lhs, rhs ast.Expr) {
		switch l := lhs.(type) {
		case *ast.Ident:
			o := core.ObjOf(fa.info, l)
			if o == nil || !dataStruct(o.Type()) {
				return
			}
			defs[o] = append(defs[o], rhs)
		case *ast.SelectorExpr:
			if id, ok := l.X.(*ast.Ident); ok {
				if o := core.ObjOf(fa.info, id); o != nil {
					dirty[o] = true
				}
			}
		}
	}
	ast.Inspect(body, func(n ast.Node) bool {
		switch s := n.(type) {
		case *ast.AssignStmt:
			for i := range s.Lhs {
				var r ast.Expr
				if len(s.Lhs) == len(s.Rhs) {
					r = s.Rhs[i]
				}
				note(s.Lhs[i], r)
			}
		case *ast.ValueSpec:
			for i := range s.Names {
				var r ast.Expr
				if len(s.Names) == len(s.Values) {
					r = s.Values[i]
				}
				note(s.Names[i], r)
			}
		case *ast.UnaryExpr:
			if s.Op == token.AND {
				if id, ok := s.X.(*ast.Ident); ok {
					if o := core.ObjOf(fa.info, id); o != nil {
						dirty[o] = true
					}
				}
			}
		}
		return true
	})
	for o, rs := range defs {
		if len(rs) != 1 || rs[0] == nil || dirty[o] {
			continue
		}
		switch rs[0].(type) {
		case *ast.Ident, *ast.SelectorExpr:
			if tv, ok := fa.info.Types[rs[0]]; ok && dataStruct(tv.Type) {
				if _, isPtr := tv.Type.Underlying().(*types.Pointer); !isPtr {
					fa.alias[o] = rs[0]
				}
			}
		}
	}
}

func (fa *funcAnalysis) objID(o types.Object) int {
	if id, ok := fa.objIDs[o]; ok {
		return id
	}
	id := len(fa.objIDs) + 1
	fa.objIDs[o] = id
	return id
}

// path canonicalises an access path expression; ok=false if the root is not
// an identifier chain.
func (fa *funcAnalysis) path(e ast.Expr) (string, bool) {
	switch e := e.(type) {
	case *ast.Ident:
		o := core.ObjOf(fa.info, e)
		if o == nil {
			return "", false
		}
		if a, ok := fa.alias[o]; ok && !fa.inAlias[o] {
			// A local struct copy of an access path, assigned exactly
			// once and never modified, denotes that path.
			fa.inAlias[o] = true
			p, ok := fa.path(a)
			fa.inAlias[o] = false
			if ok {
				return p, true
			}
		}
		k := fmt.Sprintf("%s#%d", e.Name, fa.objID(o))
		fa.ownerName[k] = e.Name
		return k, true
	case *ast.ParenExpr:
		return fa.path(e.X)
	case *ast.StarExpr:
		return fa.path(e.X)
	case *ast.SelectorExpr:
		p, ok := fa.path(e.X)
		if !ok {
			return "", false
		}
		k := p + "." + e.Sel.Name
		fa.ownerName[k] = fa.ownerName[p] + "." + e.Sel.Name
		return k, true
	case *ast.CallExpr:
		// Method-call projections such as a.RawMatrix(): stable text.
		if len(e.Args) == 0 {
			if s, ok := e.Fun.(*ast.SelectorExpr); ok {
				p, ok := fa.path(s.X)
				if ok {
					k := p + "." + s.Sel.Name + "()"
					fa.ownerName[k] = fa.ownerName[p] + "." + s.Sel.Name + "()"
					return k, true
				}
			}
		}
	}
	return "", false
}

// baseOwner returns the owner key of an indexable base expression.
func (fa *funcAnalysis) baseOwner(e ast.Expr) (string, bool) {
	switch e := e.(type) {
	case *ast.ParenExpr:
		return fa.baseOwner(e.X)
	case *ast.Ident:
		o := core.ObjOf(fa.info, e)
		if k, ok := fa.sliceOwner[o]; ok {
			return k, true
		}
	case *ast.SelectorExpr:
		if e.Sel.Name == "Data" {
			if tv, ok := fa.info.Types[e.X]; ok && dataStruct(tv.Type) {
				if p, ok := fa.path(e.X); ok {
					return "path:" + p, true
				}
			}
		}
	}
	return "", false
}

// rootBase strips slicing from an argument to find the base it views.
func rootBase(e ast.Expr) ast.Expr {
	for {
		switch x := e.(type) {
		case *ast.SliceExpr:
			e = x.X
		case *ast.ParenExpr:
			e = x.X
		default:
			return e
		}
	}
}

func (fa *funcAnalysis) isConversion(c *ast.CallExpr) bool {
	tv, ok := fa.info.Types[c.Fun]
	return ok && tv.IsType()
}

func (fa *funcAnalysis) transparentCall(c *ast.CallExpr) bool {
	var name string
	switch f := c.Fun.(type) {
	case *ast.Ident:
		name = f.Name
	case *ast.SelectorExpr:
		name = f.Sel.Name
	}
	switch name {
	case "min", "max", "abs", "Min", "Max", "Abs":
		return true
	}
	return false
}

// exprUnits computes the owner set of strides flowing into e.
func (fa *funcAnalysis) exprUnits(e ast.Expr, out map[string]bool) {
	switch e := e.(type) {
	case *ast.Ident:
		o := core.ObjOf(fa.info, e)
		if o == nil {
			return
		}
		if k, ok := fa.strideOwner[o]; ok {
			out[k] = true
		}
		for k := range fa.units[o] {
			out[k] = true
		}
	case *ast.SelectorExpr:
		if e.Sel.Name == "Stride" || e.Sel.Name == "Inc" {
			if tv, ok := fa.info.Types[e.X]; ok && dataStruct(tv.Type) {
				if p, ok := fa.path(e.X); ok {
					out["path:"+p] = true
				}
				return
			}
		}
	case *ast.ParenExpr:
		fa.exprUnits(e.X, out)
	case *ast.UnaryExpr:
		if e.Op == token.SUB || e.Op == token.ADD {
			fa.exprUnits(e.X, out)
		}
	case *ast.BinaryExpr:
		switch e.Op {
		case token.ADD, token.SUB, token.MUL, token.QUO, token.REM:
			fa.exprUnits(e.X, out)
			fa.exprUnits(e.Y, out)
		}
	case *ast.CallExpr:
		if fa.isConversion(e) && len(e.Args) == 1 {
			fa.exprUnits(e.Args[0], out)
		} else if fa.transparentCall(e) {
			for _, a := range e.Args {
				fa.exprUnits(a, out)
			}
		}
	}
}

func (fa *funcAnalysis) assign(lhs ast.Expr, rhs ast.Expr) bool {
	id, ok := lhs.(*ast.Ident)
	if !ok || id.Name == "_" {
		return false
	}
	o := core.ObjOf(fa.info, id)
	if o == nil || !isIntLike(o.Type()) {
		return false
	}
	if _, isStride := fa.strideOwner[o]; isStride {
		return false
	}
	u := map[string]bool{}
	fa.exprUnits(rhs, u)
	changed := false
	for k := range u {
		if fa.units[o] == nil {
			fa.units[o] = map[string]bool{}
		}
		if !fa.units[o][k] {
			fa.units[o][k] = true
			changed = true
		}
	}
	return changed
}

func (fa *funcAnalysis) fixpoint(body ast.Node) {
	for iter := 0; iter < 50; iter++ {
		changed := false
		ast.Inspect(body, func(n ast.Node) bool {
			switch s := n.(type) {
			case *ast.AssignStmt:
				if len(s.Lhs) == len(s.Rhs) {
					for i := range s.Lhs {
						if fa.assign(s.Lhs[i], s.Rhs[i]) {
							changed = true
						}
					}
				}
			case *ast.ValueSpec:
				if len(s.Names) == len(s.Values) {
					for i := range s.Names {
						if fa.assign(s.Names[i], s.Values[i]) {
							changed = true
						}
					}
				}
			}
			return true
		})
		if !changed {
			return
		}
	}
}

func (fa *funcAnalysis) ownerLabel(k string) string {
	if strings.HasPrefix(k, "path:") {
		return fa.ownerName[strings.TrimPrefix(k, "path:")]
	}
	return strings.TrimPrefix(k, "param:")
}

func (fa *funcAnalysis) checkUnits(kind string, base string, e ast.Expr, at token.Pos) {
	if e == nil {
		return
	}
	u := map[string]bool{}
	fa.exprUnits(e, u)
	fa.res.Obligations++
	var foreign []string
	for k := range u {
		if k != base {
			foreign = append(foreign, fa.ownerLabel(k))
		}
	}
	if len(foreign) == 0 {
		return
	}
	sort.Strings(foreign)
	rule := "STRIDE.index"
	if kind == "call" || kind == "lit" {
		rule = "STRIDE.pair"
	}
	if kind == "len" {
		rule = "STRIDE.len"
	}
	fa.res.Add(core.Finding{
		Rule: rule,
		Key:  fmt.Sprintf("%s|%s|%s<-%s", rule, fa.name, fa.ownerLabel(base), strings.Join(foreign, ",")),
		Pos:  core.Pos(at),
		Func: fa.name,
		Msg: fmt.Sprintf("operand %q is addressed with the stride/increment of %s in %q (%s)",
			fa.ownerLabel(base), strings.Join(foreign, ","), types.ExprString(e), kind),
	})
}

// checkRowOffset: an index or slice bound of a matrix operand (one paired
// with a leading dimension) that multiplies two non-constant quantities
// without involving the operand's leading dimension computes a row offset
// as if the rows were packed (a[i*n:(i+1)*n] instead of a[i*lda:i*lda+n]).
func (fa *funcAnalysis) checkRowOffset(owner string, e ast.Expr, at token.Pos) {
	if e == nil {
		return
	}
	isMatrix := false
	for o, k := range fa.strideOwner {
		if k == owner && strings.HasPrefix(strings.ToLower(o.Name()), "ld") {
			isMatrix = true
		}
	}
	if !isMatrix {
		return
	}
	fa.res.Obligations++
	fa.res.Count("matrix_index_expressions", 1)
	var bad ast.Expr
	ast.Inspect(e, func(n ast.Node) bool {
		be, ok := n.(*ast.BinaryExpr)
		if !ok || be.Op != token.MUL || bad != nil {
			return bad == nil
		}
		constant := func(x ast.Expr) bool {
			tv, ok := fa.info.Types[x]
			return ok && tv.Value != nil
		}
		if constant(be.X) || constant(be.Y) {
			return true
		}
		u := map[string]bool{}
		fa.exprUnits(be, u)
		if len(u) == 0 {
			bad = be
		}
		return true
	})
	if bad != nil {
		fa.res.Add(core.Finding{
			Rule: "STRIDE.rowoffset",
			Key:  fmt.Sprintf("STRIDE.rowoffset|%s|%s", fa.name, fa.ownerLabel(owner)),
			Pos:  core.Pos(at), Func: fa.name,
			Msg: fmt.Sprintf("matrix operand %q is addressed with the product %q, which does not involve its leading dimension: rows are %s apart, not packed",
				fa.ownerLabel(owner), types.ExprString(bad), "ld"+strings.TrimPrefix(fa.ownerLabel(owner), "")),
		})
	}
}

// ContigExempt lists "function|vector" pairs whose contiguous use of a
// strided vector's Data is legitimate, with the reason.
var ContigExempt = map[string]string{
	"mat.VecDense.UnmarshalBinary|v.mat":     "the receiver must be empty (panic otherwise) and was just sized by reuseAsNonZeroed, which allocates with Inc == 1",
	"mat.VecDense.UnmarshalBinaryFrom|v.mat": "the receiver must be empty (panic otherwise) and was just sized by reuseAsNonZeroed, which allocates with Inc == 1",
}

// vectorPath returns the access path P when e is P.Data and P is a
// strided vector (a struct with Data and Inc fields).
func (fa *funcAnalysis) vectorPath(e ast.Expr) (string, ast.Expr, bool) {
	for {
		switch x := e.(type) {
		case *ast.ParenExpr:
			e = x.X
			continue
		case *ast.SliceExpr:
			e = x.X
			continue
		}
		break
	}
	sel, ok := e.(*ast.SelectorExpr)
	if !ok || sel.Sel.Name != "Data" {
		return "", nil, false
	}
	tv, ok := fa.info.Types[sel.X]
	if !ok {
		return "", nil, false
	}
	t := tv.Type
	if p, ok := t.Underlying().(*types.Pointer); ok {
		t = p.Elem()
	}
	st, ok := t.Underlying().(*types.Struct)
	if !ok {
		return "", nil, false
	}
	hasInc := false
	for i := 0; i < st.NumFields(); i++ {
		if st.Field(i).Name() == "Inc" {
			hasInc = true
		}
	}
	if !hasInc {
		return "", nil, false
	}
	p, ok := fa.path(sel.X)
	return p, sel.X, ok
}

// checkContiguous: P.Data of a strided vector used as if it were
// contiguous (copy, range, unit-less index, handed to a *Unitary kernel)
// must be control-dependent on a test of P.Inc.
func (fa *funcAnalysis) checkContiguous(body ast.Node) {
	par := map[ast.Node]ast.Node{}
	var stack []ast.Node
	ast.Inspect(body, func(n ast.Node) bool {
		if n == nil {
			stack = stack[:len(stack)-1]
			return true
		}
		if len(stack) > 0 {
			par[n] = stack[len(stack)-1]
		}
		stack = append(stack, n)
		return true
	})
	guarded := func(at ast.Node, p string) bool {
		for q := par[at]; q != nil; q = par[q] {
			var conds []ast.Expr
			switch s := q.(type) {
			case *ast.IfStmt:
				conds = append(conds, s.Cond)
			case *ast.CaseClause:
				conds = append(conds, s.List...)
			case *ast.SwitchStmt:
				if s.Tag != nil {
					conds = append(conds, s.Tag)
				}
			}
			for _, c := range conds {
				found := false
				ast.Inspect(c, func(n ast.Node) bool {
					if sel, ok := n.(*ast.SelectorExpr); ok && sel.Sel.Name == "Inc" {
						if pp, ok := fa.path(sel.X); ok && pp == p {
							found = true
						}
					}
					if id, ok := n.(*ast.Ident); ok {
						// locals carrying the unit of P (inc := x.Inc; fast := x.Inc == 1 ...)
						if o := core.ObjOf(fa.info, id); o != nil && (fa.units[o]["path:"+p] || fa.incFlags[o][p]) {
							found = true
						}
					}
					return !found
				})
				if found {
					return true
				}
			}
		}
		return false
	}
	flag := func(at ast.Node, p string, how string) {
		fa.res.Obligations++
		fa.res.Count("contiguous_uses_of_vector_data", 1)
		if guarded(at, p) {
			return
		}
		if _, ok := ContigExempt[fa.name+"|"+fa.ownerName[p]]; ok {
			fa.res.Count("contiguous_uses_exempt_by_table", 1)
			return
		}
		fa.res.Add(core.Finding{
			Rule: "STRIDE.contig",
			Key:  fmt.Sprintf("STRIDE.contig|%s|%s", fa.name, fa.ownerName[p]),
			Pos:  core.Pos(at.Pos()), Func: fa.name,
			Msg: fmt.Sprintf("the Data of strided vector %q is %s without any test of %s.Inc on the path: with Inc != 1 the wrong elements are used", fa.ownerName[p], how, fa.ownerName[p]),
		})
	}
	ast.Inspect(body, func(n ast.Node) bool {
		switch x := n.(type) {
		case *ast.CallExpr:
			if id, ok := x.Fun.(*ast.Ident); ok && id.Name == "copy" && len(x.Args) == 2 {
				for _, a := range x.Args {
					if p, _, ok := fa.vectorPath(a); ok {
						flag(x, p, "copied as a contiguous slice")
					}
				}
			}
		case *ast.RangeStmt:
			if p, _, ok := fa.vectorPath(x.X); ok {
				flag(x, p, "ranged over as a contiguous slice")
			}
		}
		return true
	})
}

// checkStartOffsets: STRIDE.start. For a vector operand v whose function
// computes a negative-increment start offset (an assignment with v's unit
// under a condition `incV < 0`), every strided index of v must be anchored
// at such an offset, directly or through locals.
func (fa *funcAnalysis) checkStartOffsets(body ast.Node) {
	// parents for condition lookup
	par := map[ast.Node]ast.Node{}
	var stack []ast.Node
	ast.Inspect(body, func(n ast.Node) bool {
		if n == nil {
			stack = stack[:len(stack)-1]
			return true
		}
		if len(stack) > 0 {
			par[n] = stack[len(stack)-1]
		}
		stack = append(stack, n)
		return true
	})
	negGuard := func(at ast.Node, owner string) bool {
		for q := par[at]; q != nil; q = par[q] {
			is, ok := q.(*ast.IfStmt)
			if !ok {
				continue
			}
			found := false
			ast.Inspect(is.Cond, func(n ast.Node) bool {
				be, ok := n.(*ast.BinaryExpr)
				if !ok || (be.Op != token.LSS && be.Op != token.GTR && be.Op != token.LEQ && be.Op != token.GEQ) {
					return true
				}
				u := map[string]bool{}
				fa.exprUnits(be.X, u)
				fa.exprUnits(be.Y, u)
				if u[owner] {
					found = true
				}
				return !found
			})
			if found {
				return true
			}
		}
		return false
	}
	starts := map[string]map[types.Object]bool{} // owner -> start offset locals
	deps := map[types.Object]map[types.Object]bool{}
	ast.Inspect(body, func(n ast.Node) bool {
		as, ok := n.(*ast.AssignStmt)
		if !ok || len(as.Lhs) != len(as.Rhs) {
			return true
		}
		for i, l := range as.Lhs {
			id, ok := l.(*ast.Ident)
			if !ok {
				continue
			}
			o := core.ObjOf(fa.info, id)
			if o == nil || !isIntLike(o.Type()) {
				continue
			}
			if deps[o] == nil {
				deps[o] = map[types.Object]bool{}
			}
			ast.Inspect(as.Rhs[i], func(m ast.Node) bool {
				if x, ok := m.(*ast.Ident); ok {
					if d := core.ObjOf(fa.info, x); d != nil {
						deps[o][d] = true
					}
				}
				return true
			})
			u := map[string]bool{}
			fa.exprUnits(as.Rhs[i], u)
			for owner := range u {
				if negGuard(as, owner) {
					if starts[owner] == nil {
						starts[owner] = map[types.Object]bool{}
					}
					starts[owner][o] = true
				}
			}
		}
		return true
	})
	if len(starts) == 0 {
		return
	}
	anchored := func(e ast.Expr, owner string) bool {
		seen := map[types.Object]bool{}
		var visit func(o types.Object) bool
		visit = func(o types.Object) bool {
			if starts[owner][o] {
				return true
			}
			if seen[o] {
				return false
			}
			seen[o] = true
			for d := range deps[o] {
				if visit(d) {
					return true
				}
			}
			return false
		}
		ok := false
		ast.Inspect(e, func(n ast.Node) bool {
			if x, isID := n.(*ast.Ident); isID && !ok {
				if o := core.ObjOf(fa.info, x); o != nil && visit(o) {
					ok = true
				}
			}
			return !ok
		})
		return ok
	}
	ast.Inspect(body, func(n ast.Node) bool {
		ix, ok := n.(*ast.IndexExpr)
		if !ok {
			return true
		}
		owner, ok := fa.baseOwner(ix.X)
		if !ok || starts[owner] == nil {
			return true
		}
		u := map[string]bool{}
		fa.exprUnits(ix.Index, u)
		if !u[owner] {
			return true // unit-stride fast path or constant index
		}
		fa.res.Obligations++
		fa.res.Count("strided_vector_indices", 1)
		if anchored(ix.Index, owner) {
			return true
		}
		fa.res.Add(core.Finding{
			Rule: "STRIDE.start",
			Key:  fmt.Sprintf("STRIDE.start|%s|%s", fa.name, fa.ownerLabel(owner)),
			Pos:  core.Pos(ix.Pos()), Func: fa.name,
			Msg: fmt.Sprintf("strided index %q of %q is not anchored at the negative-increment start offset this routine computes for it: with a negative increment it addresses outside the vector",
				types.ExprString(ix.Index), fa.ownerLabel(owner)),
		})
		return true
	})
}

// stripConv removes parentheses and integer conversions.
func (fa *funcAnalysis) stripConv(e ast.Expr) ast.Expr {
	for {
		switch x := e.(type) {
		case *ast.ParenExpr:
			e = x.X
			continue
		case *ast.CallExpr:
			if fa.isConversion(x) && len(x.Args) == 1 {
				e = x.Args[0]
				continue
			}
		}
		return e
	}
}

// countOf matches e against ±(E-1)*inc or ±(1-E)*inc (inc carrying owner's
// unit) and returns the text of E.
func (fa *funcAnalysis) countOf(e ast.Expr, owner string) (string, bool) {
	e = fa.stripConv(e)
	if u, ok := e.(*ast.UnaryExpr); ok && u.Op == token.SUB {
		return fa.countOf(u.X, owner)
	}
	be, ok := e.(*ast.BinaryExpr)
	if !ok || be.Op != token.MUL {
		return "", false
	}
	isInc := func(x ast.Expr) bool {
		x = fa.stripConv(x)
		if u, ok := x.(*ast.UnaryExpr); ok && u.Op == token.SUB {
			x = fa.stripConv(u.X)
		}
		id, ok := x.(*ast.Ident)
		if !ok {
			if sel, ok := x.(*ast.SelectorExpr); ok && (sel.Sel.Name == "Inc") {
				u := map[string]bool{}
				fa.exprUnits(x, u)
				return u[owner]
			}
			return false
		}
		o := core.ObjOf(fa.info, id)
		return o != nil && fa.strideOwner[o] == owner
	}
	cnt := func(x ast.Expr) (string, bool) {
		x = fa.stripConv(x)
		if u, ok := x.(*ast.UnaryExpr); ok && u.Op == token.SUB {
			x = fa.stripConv(u.X)
		}
		b, ok := x.(*ast.BinaryExpr)
		if !ok || b.Op != token.SUB {
			return "", false
		}
		one := func(y ast.Expr) bool {
			tv, ok := fa.info.Types[y]
			return ok && tv.Value != nil && tv.Value.ExactString() == "1"
		}
		switch {
		case one(b.Y):
			return types.ExprString(fa.stripConv(b.X)), true
		case one(b.X):
			return types.ExprString(fa.stripConv(b.Y)), true
		}
		return "", false
	}
	if isInc(be.Y) {
		return cnt(be.X)
	}
	if isInc(be.X) {
		return cnt(be.Y)
	}
	return "", false
}

// checkExtents: STRIDE.extent. The element count of a strided vector
// appears in its length check (len(v) <= (E-1)*incV), in its
// negative-increment start offset (kv = -(E-1)*incV) and as the bound of the
// loop that steps its index by incV. All of them denote one quantity: a
// start offset written with the other dimension (m for n) addresses outside
// the vector, or the wrong end of it, for negative increments only.
func (fa *funcAnalysis) checkExtents(body ast.Node) {
	type use struct {
		kind, count string
		pos         token.Pos
	}
	uses := map[string][]use{}
	par := cfgx.Parents(body)
	isVec := func(owner string) bool {
		for o, k := range fa.strideOwner {
			if k == owner && strings.HasPrefix(strings.ToLower(o.Name()), "inc") {
				return true
			}
		}
		return false
	}
	ast.Inspect(body, func(n ast.Node) bool {
		switch x := n.(type) {
		case *ast.AssignStmt:
			if len(x.Lhs) != 1 || len(x.Rhs) != 1 {
				return true
			}
			if x.Tok == token.ASSIGN || x.Tok == token.DEFINE {
				u := map[string]bool{}
				fa.exprUnits(x.Rhs[0], u)
				for owner := range u {
					if !isVec(owner) {
						continue
					}
					if c, ok := fa.countOf(x.Rhs[0], owner); ok {
						uses[owner] = append(uses[owner], use{"start offset", c, x.Pos()})
					}
				}
			}
			if x.Tok == token.ADD_ASSIGN || x.Tok == token.SUB_ASSIGN {
				id, ok := fa.stripConv(x.Rhs[0]).(*ast.Ident)
				if !ok {
					return true
				}
				o := core.ObjOf(fa.info, id)
				owner, ok := fa.strideOwner[o]
				if !ok || !isVec(owner) {
					return true
				}
				// nearest enclosing for statement
				for q := par[x]; q != nil; q = par[q] {
					fs, ok := q.(*ast.ForStmt)
					if !ok {
						continue
					}
					if c, ok := fa.loopCount(fs); ok {
						uses[owner] = append(uses[owner], use{"loop bound", c, fs.Pos()})
					}
					break
				}
			}
		case *ast.BinaryExpr:
			switch x.Op {
			case token.LSS, token.LEQ, token.GTR, token.GEQ:
			default:
				return true
			}
			for _, pair := range [][2]ast.Expr{{x.X, x.Y}, {x.Y, x.X}} {
				c, ok := fa.stripConv(pair[0]).(*ast.CallExpr)
				if !ok || len(c.Args) != 1 {
					continue
				}
				if id, ok := c.Fun.(*ast.Ident); !ok || id.Name != "len" {
					continue
				}
				owner, ok := fa.baseOwner(rootBase(c.Args[0]))
				if !ok || !isVec(owner) {
					continue
				}
				ast.Inspect(pair[1], func(m ast.Node) bool {
					if e, ok := m.(ast.Expr); ok {
						if cnt, ok := fa.countOf(e, owner); ok {
							uses[owner] = append(uses[owner], use{"length check", cnt, x.Pos()})
							return false
						}
					}
					return true
				})
			}
		}
		return true
	})
	// locals defined exactly once from another name (lenX := n) are names
	// for it
	defs := map[string][]string{}
	ast.Inspect(body, func(n ast.Node) bool {
		as, ok := n.(*ast.AssignStmt)
		if !ok || len(as.Lhs) != len(as.Rhs) {
			return true
		}
		for i, l := range as.Lhs {
			if id, ok := l.(*ast.Ident); ok {
				defs[id.Name] = append(defs[id.Name], types.ExprString(fa.stripConv(as.Rhs[i])))
			}
		}
		return true
	})
	resolve := func(c string) string {
		for i := 0; i < 4; i++ {
			d, ok := defs[c]
			if !ok || len(d) != 1 || !token.IsIdentifier(d[0]) {
				break
			}
			c = d[0]
		}
		return c
	}
	var owners []string
	for o := range uses {
		owners = append(owners, o)
	}
	sort.Strings(owners)
	for _, owner := range owners {
		us := uses[owner]
		for i := range us {
			us[i].count = resolve(us[i].count)
		}
		ref := ""
		hasLen := false
		for _, u := range us {
			if u.kind == "length check" {
				ref = u.count
				hasLen = true
				break
			}
		}
		if ref == "" {
			for _, u := range us {
				if u.kind == "loop bound" {
					ref = u.count
					break
				}
			}
		}
		if ref == "" {
			continue
		}
		// where the routine states the extent in a length check, the loops
		// (triangular, banded, blocked) legitimately walk parts of it
		if hasLen {
			var keep []use
			for _, u := range us {
				if u.kind != "loop bound" {
					keep = append(keep, u)
				}
			}
			us = keep
		}
		fa.res.Count("vector_extent_owners", 1)
		for _, u := range us {
			fa.res.Obligations++
			fa.res.Count("vector_extent_uses", 1)
			if u.count == ref {
				continue
			}
			fa.res.Add(core.Finding{
				Rule: "STRIDE.extent",
				Key:  fmt.Sprintf("STRIDE.extent|%s|%s|%s:%s", fa.name, fa.ownerLabel(owner), u.kind, u.count),
				Pos:  core.Pos(u.pos), Func: fa.name,
				Msg: fmt.Sprintf("the %s of strided vector %q uses element count %q, but the vector's extent elsewhere in this routine is %q",
					u.kind, fa.ownerLabel(owner), u.count, ref),
			})
		}
	}
}

// loopCount returns B for `for i := 0; i < B; i++` and `for i := B - 1; i >= 0; i--`.
func (fa *funcAnalysis) loopCount(fs *ast.ForStmt) (string, bool) {
	be, ok := fs.Cond.(*ast.BinaryExpr)
	if !ok {
		return "", false
	}
	init, ok := fs.Init.(*ast.AssignStmt)
	if !ok || len(init.Lhs) != 1 || len(init.Rhs) != 1 {
		return "", false
	}
	tv, isConst := fa.info.Types[init.Rhs[0]]
	switch be.Op {
	case token.LSS:
		if isConst && tv.Value != nil && tv.Value.ExactString() == "0" {
			return types.ExprString(fa.stripConv(be.Y)), true
		}
	case token.GEQ:
		if z, ok := fa.info.Types[be.Y]; ok && z.Value != nil && z.Value.ExactString() == "0" {
			if b, ok := fa.stripConv(init.Rhs[0]).(*ast.BinaryExpr); ok && b.Op == token.SUB {
				if o, ok := fa.info.Types[b.Y]; ok && o.Value != nil && o.Value.ExactString() == "1" {
					return types.ExprString(fa.stripConv(b.X)), true
				}
			}
		}
	}
	return "", false
}

func (fa *funcAnalysis) check(body ast.Node) {
	fa.checkContiguous(body)
	fa.checkStartOffsets(body)
	fa.checkExtents(body)
	ast.Inspect(body, func(n ast.Node) bool {
		switch x := n.(type) {
		case *ast.IndexExpr:
			if k, ok := fa.baseOwner(x.X); ok {
				fa.res.Count("index_sites", 1)
				fa.checkUnits("index", k, x.Index, x.Pos())
				fa.checkRowOffset(k, x.Index, x.Pos())
			}
		case *ast.SliceExpr:
			if k, ok := fa.baseOwner(x.X); ok {
				fa.res.Count("index_sites", 1)
				fa.checkUnits("slice-low", k, x.Low, x.Pos())
				fa.checkUnits("slice-high", k, x.High, x.Pos())
				fa.checkUnits("slice-max", k, x.Max, x.Pos())
				fa.checkRowOffset(k, x.Low, x.Pos())
				fa.checkRowOffset(k, x.High, x.Pos())
			}
		case *ast.CallExpr:
			fa.checkCall(x)
		case *ast.BinaryExpr:
			fa.checkLenCompare(x)
		case *ast.CompositeLit:
			fa.checkLit(x)
		}
		return true
	})
}

// checkLenCompare: in a comparison one side of which is built from len(p)
// of an owned operand p only, the other side (the required extent) may
// carry only p's own stride unit: `len(y) <= (n-1)*incX` is the length
// check of y written with x's increment.
func (fa *funcAnalysis) checkLenCompare(be *ast.BinaryExpr) {
	switch be.Op {
	case token.LSS, token.LEQ, token.GTR, token.GEQ, token.EQL, token.NEQ:
	default:
		return
	}
	lenOwner := func(e ast.Expr) (string, bool) {
		for {
			if p, ok := e.(*ast.ParenExpr); ok {
				e = p.X
				continue
			}
			break
		}
		c, ok := e.(*ast.CallExpr)
		if !ok || len(c.Args) != 1 {
			return "", false
		}
		id, ok := c.Fun.(*ast.Ident)
		if !ok || id.Name != "len" {
			return "", false
		}
		return fa.baseOwner(rootBase(c.Args[0]))
	}
	if k, ok := lenOwner(be.X); ok {
		fa.res.Count("length_check_comparisons", 1)
		fa.checkUnits("len", k, be.Y, be.Pos())
	} else if k, ok := lenOwner(be.Y); ok {
		fa.res.Count("length_check_comparisons", 1)
		fa.checkUnits("len", k, be.X, be.Pos())
	}
}

func (fa *funcAnalysis) checkCall(c *ast.CallExpr) {
	if fa.isConversion(c) {
		return
	}
	var sig *types.Signature
	if fn := typeutil.Callee(fa.info, c); fn != nil {
		sig, _ = fn.Type().(*types.Signature)
	} else if tv, ok := fa.info.Types[c.Fun]; ok {
		sig, _ = tv.Type.Underlying().(*types.Signature)
	}
	if sig == nil || sig.Variadic() && len(c.Args) != sig.Params().Len() {
		return
	}
	if len(c.Args) != sig.Params().Len() {
		return
	}
	adj, byName := sigPairs(sig)
	pairs := map[int]int{}
	for i, j := range byName {
		pairs[i] = j
	}
	for i, j := range adj {
		pairs[i] = j
	}
	for i, j := range pairs {
		base := rootBase(c.Args[i])
		k, ok := fa.baseOwner(base)
		if !ok {
			fa.res.Count("call_pairs_unowned", 1)
			fa.noteWorkBlock(c.Args[i], sig.Params().At(j), c.Args[j])
			continue
		}
		fa.checkVectorAsMatrix(k, base, sig.Params().At(j), c.Args[j], c, i)
		fa.res.Count("call_pairs", 1)
		fa.checkUnits("call", k, c.Args[j], c.Args[j].Pos())
		fa.checkVectorWalk(k, sig.Params().At(j), c.Args[j])
		fa.checkVectorInc(k, sig.Params().At(j), c.Args[j])
	}
	// start-index parameters of the strided kernels (ix, iy, idst): the
	// argument is an index into the operand passed for the slice parameter
	// of that name, so it obeys the same rules as an index expression.
	ps := sig.Params()
	for j := 0; j < ps.Len(); j++ {
		pn := strings.ToLower(ps.At(j).Name())
		if !isIntLike(ps.At(j).Type()) || len(pn) < 2 || pn[0] != 'i' || strings.HasPrefix(pn, "inc") {
			continue
		}
		for i := 0; i < ps.Len(); i++ {
			if !isSlice(ps.At(i).Type()) || strings.ToLower(ps.At(i).Name()) != pn[1:] {
				continue
			}
			if _, paired := pairs[i]; !paired {
				continue
			}
			k, ok := fa.baseOwner(rootBase(c.Args[i]))
			if !ok {
				continue
			}
			fa.res.Count("start_index_args", 1)
			fa.checkUnits("index", k, c.Args[j], c.Args[j].Pos())
			fa.checkRowOffset(k, c.Args[j], c.Args[j].Pos())
		}
	}
}

// noteWorkBlock records the leading dimension a workspace block work[off:]
// (off a variable) is used with; checkWorkBlocks requires all uses of one
// block in a function to agree.
func (fa *funcAnalysis) noteWorkBlock(arg ast.Expr, strideParam *types.Var, ld ast.Expr) {
	if !strings.HasPrefix(strings.ToLower(strideParam.Name()), "ld") {
		return
	}
	se, ok := ast.Unparen(arg).(*ast.SliceExpr)
	if !ok || se.Low == nil {
		return
	}
	base, ok := ast.Unparen(se.X).(*ast.Ident)
	if !ok {
		return
	}
	off, ok := ast.Unparen(se.Low).(*ast.Ident)
	if !ok {
		return
	}
	if tv, ok := fa.info.Types[se.Low]; ok && tv.Value != nil {
		return
	}
	key := base.Name + "[" + off.Name + ":]"
	if fa.workBlocks == nil {
		fa.workBlocks = map[string][]workUse{}
	}
	fa.workBlocks[key] = append(fa.workBlocks[key], workUse{types.ExprString(ld), ld.Pos()})
}

type workUse struct {
	ld  string
	pos token.Pos
}

// checkWorkNext: STRIDE.worknext. A workspace block work[off:] that is used
// as a matrix with leading dimension L occupies L*rows elements, so the
// offset of whatever is laid out after it, written `next = off + E`, has E
// built from L. `itau = iu + n*n` for a block used with ldworku packs the
// next region into the block whenever ldworku > n.
func (fa *funcAnalysis) checkWorkNext(body ast.Node) {
	ldOf := map[string]string{} // offset variable -> ld identifier
	for k, uses := range fa.workBlocks {
		if !strings.HasPrefix(k, "work[") {
			continue // only the workspace slice is partitioned by offset variables
		}
		i := strings.Index(k, "[")
		off := strings.TrimSuffix(k[i+1:], ":]")
		n := map[string]int{}
		for _, u := range uses {
			n[u.ld]++
		}
		best, bestN := "", 0
		for ld, c := range n {
			if c > bestN || c == bestN && ld < best {
				best, bestN = ld, c
			}
		}
		if token.IsIdentifier(best) {
			ldOf[off] = best
		}
	}
	if len(ldOf) == 0 {
		return
	}
	ast.Inspect(body, func(n ast.Node) bool {
		as, ok := n.(*ast.AssignStmt)
		if !ok || len(as.Lhs) != len(as.Rhs) {
			return true
		}
		for i, r := range as.Rhs {
			if _, ok := as.Lhs[i].(*ast.Ident); !ok {
				continue
			}
			be, ok := ast.Unparen(r).(*ast.BinaryExpr)
			if !ok || be.Op != token.ADD {
				continue
			}
			for _, pair := range [][2]ast.Expr{{be.X, be.Y}, {be.Y, be.X}} {
				id, ok := ast.Unparen(pair[0]).(*ast.Ident)
				if !ok {
					continue
				}
				ld, ok := ldOf[id.Name]
				if !ok {
					continue
				}
				if tv, ok := fa.info.Types[pair[1]]; ok && tv.Value != nil {
					continue
				}
				fa.res.Obligations++
				fa.res.Count("work_block_successors", 1)
				mentions := false
				ast.Inspect(pair[1], func(m ast.Node) bool {
					if x, ok := m.(*ast.Ident); ok && x.Name == ld {
						mentions = true
					}
					return !mentions
				})
				if !mentions {
					fa.res.Add(core.Finding{
						Rule: "STRIDE.worknext",
						Key:  fmt.Sprintf("STRIDE.worknext|%s|%s<-%s", fa.name, types.ExprString(as.Lhs[i]), types.ExprString(r)),
						Pos:  core.Pos(r.Pos()), Func: fa.name,
						Msg: fmt.Sprintf("the workspace block at %s is used as a matrix with leading dimension %s, but the region after it starts at %s, which is not computed from %s: with %s larger than the row length the regions overlap",
							id.Name, ld, types.ExprString(r), ld, ld),
					})
				}
			}
		}
		return true
	})
}

func (fa *funcAnalysis) checkWorkBlocks() {
	var keys []string
	for k := range fa.workBlocks {
		keys = append(keys, k)
	}
	sort.Strings(keys)
	for _, k := range keys {
		uses := fa.workBlocks[k]
		if len(uses) < 2 {
			continue
		}
		fa.res.Count("work_blocks", 1)
		n := map[string]int{}
		for _, u := range uses {
			n[u.ld]++
		}
		fa.res.Obligations += len(uses)
		if len(n) == 1 {
			continue
		}
		best, bestN := "", 0
		for ld, c := range n {
			if c > bestN || c == bestN && ld < best {
				best, bestN = ld, c
			}
		}
		for _, u := range uses {
			if u.ld == best {
				continue
			}
			fa.res.Add(core.Finding{
				Rule: "STRIDE.workld",
				Key:  fmt.Sprintf("STRIDE.workld|%s|%s<-%s", fa.name, k, u.ld),
				Pos:  core.Pos(u.pos), Func: fa.name,
				Msg: fmt.Sprintf("workspace block %s is used as a matrix with leading dimension %q here but with %q at its %d other uses in this function",
					k, u.ld, best, bestN),
			})
		}
	}
}

// checkVectorInc: a strided vector operand (a slice parameter paired with an
// inc* parameter) handed on to a vector parameter of a callee keeps its own
// increment: the increment argument must be built from the operand's inc*
// (incX, -incX, 2*incX ...). A constant there walks the strided vector as if
// it were contiguous.
func (fa *funcAnalysis) checkVectorInc(owner string, strideParam *types.Var, arg ast.Expr) {
	if !strings.HasPrefix(strings.ToLower(strideParam.Name()), "inc") {
		return
	}
	isVector := false
	for o, k := range fa.strideOwner {
		if k == owner {
			if strings.HasPrefix(strings.ToLower(o.Name()), "inc") {
				isVector = true
			}
		}
	}
	if !isVector {
		return
	}
	fa.res.Obligations++
	fa.res.Count("vector_inc_forwards", 1)
	u := map[string]bool{}
	fa.exprUnits(arg, u)
	if u[owner] {
		return
	}
	fa.res.Add(core.Finding{
		Rule: "STRIDE.vecinc",
		Key:  fmt.Sprintf("STRIDE.vecinc|%s|%s<-%s", fa.name, fa.ownerLabel(owner), types.ExprString(arg)),
		Pos:  core.Pos(arg.Pos()),
		Func: fa.name,
		Msg: fmt.Sprintf("strided vector operand %q is handed on with increment %q, which is not built from its own increment parameter",
			fa.ownerLabel(owner), types.ExprString(arg)),
	})
}

// checkVectorWalk: a 2-D operand (one paired with a leading dimension) is
// handed to a vector parameter (slice + inc*). The increment of the walk
// must then be a constant (row walk, usually 1) or be built from the
// operand's own leading dimension (column/diagonal walk): an increment
// that is a unit-less variable such as a dimension ("k") walks the matrix
// as if its rows were packed.
func (fa *funcAnalysis) checkVectorWalk(owner string, strideParam *types.Var, arg ast.Expr) {
	if !strings.HasPrefix(strings.ToLower(strideParam.Name()), "inc") {
		return
	}
	// is the owner a matrix (paired with an ld* parameter)?
	isMatrix := false
	for o, k := range fa.strideOwner {
		if k == owner && strings.HasPrefix(strings.ToLower(o.Name()), "ld") {
			isMatrix = true
		}
	}
	if !isMatrix {
		return
	}
	fa.res.Obligations++
	fa.res.Count("matrix_vector_walks", 1)
	if tv, ok := fa.info.Types[arg]; ok && tv.Value != nil {
		return
	}
	u := map[string]bool{}
	fa.exprUnits(arg, u)
	if u[owner] {
		return
	}
	fa.res.Add(core.Finding{
		Rule: "STRIDE.walk",
		Key:  fmt.Sprintf("STRIDE.walk|%s|%s<-%s", fa.name, fa.ownerLabel(owner), types.ExprString(arg)),
		Pos:  core.Pos(arg.Pos()),
		Func: fa.name,
		Msg: fmt.Sprintf("matrix operand %q is walked as a vector with increment %q, which is neither a constant nor derived from its leading dimension",
			fa.ownerLabel(owner), types.ExprString(arg)),
	})
}

func (fa *funcAnalysis) checkLit(l *ast.CompositeLit) {
	tv, ok := fa.info.Types[l]
	if !ok || !dataStruct(tv.Type) {
		return
	}
	var data, stride ast.Expr
	for _, el := range l.Elts {
		kv, ok := el.(*ast.KeyValueExpr)
		if !ok {
			return
		}
		id, _ := kv.Key.(*ast.Ident)
		if id == nil {
			continue
		}
		switch id.Name {
		case "Data":
			data = kv.Value
		case "Stride", "Inc":
			stride = kv.Value
		}
	}
	if data == nil || stride == nil {
		return
	}
	k, ok := fa.baseOwner(rootBase(data))
	if !ok {
		return
	}
	fa.res.Count("literal_pairs", 1)
	fa.checkUnits("lit", k, stride, stride.Pos())
}

// Run analyses the given packages.
func Run(cfg core.Config, scope core.Scope) *core.Result {
	patterns := scope.Patterns
	res := core.NewResult("STRIDE")
	res.Rules = append(res.Rules,
		"STRIDE.index: every index/slice bound of an operand carries only that operand's own ld/inc/Stride unit",
		"STRIDE.len: a comparison of len(p) with a required extent uses only p's own ld/inc/Stride",
		"STRIDE.rowoffset: an index of a matrix operand never multiplies two non-constant quantities without its leading dimension",
		"STRIDE.start: where a routine computes a negative-increment start offset for a vector, every strided index of that vector is anchored at it",
		"STRIDE.contig: the Data of a strided vector is copied or ranged over as a contiguous slice only under a test of its Inc",
		"STRIDE.walk: a matrix operand passed as a vector is walked with a constant increment or one derived from its own leading dimension",
		"STRIDE.pair: at every call or struct literal a (slice, stride) pair refers to one operand",
		"STRIDE.unitidx: an element of a vector parameter with an increment parameter inc* is addressed by an index that does not involve that increment (a bare loop counter) only where the control-flow graph restricted to inc != 1 cannot reach",
		"STRIDE.fullrange: a loop that stores into a vector parameter which has an inc* parameter does not range over the whole parameter slice (whose length is only bounded below) but over a reslice by the element count",
		"STRIDE.flatfill: a matrix parameter with a leading dimension is not written by one flat loop (or clear) over a slice whose bound is built from that leading dimension: the elements between the rows are not part of the operand",
		"STRIDE.veclda: a contiguous vector parameter (no ld/inc of its own) handed to a callee's matrix parameter as a single column (cols == 1) is not given a bare problem dimension as its leading dimension")
	res.Configs = append(res.Configs, cfg.String())
	pkgs, err := core.Load(cfg, patterns...)
	if err != nil {
		res.Brokenf("%v", err)
		return res
	}
	for _, pkg := range pkgs {
		res.Count("packages", 1)
		for _, f := range pkg.Syntax {
			if !scope.InFile(f.Pos()) {
				continue
			}
			res.Count("files", 1)
			for _, d := range f.Decls {
				fd, ok := d.(*ast.FuncDecl)
				if !ok || fd.Body == nil {
					continue
				}
				analyseFunc(res, pkg, fd)
			}
		}
	}
	return res
}

func analyseFunc(res *core.Result, pkg *packages.Package, fd *ast.FuncDecl) {
	fa := &funcAnalysis{
		pkg: pkg, info: pkg.TypesInfo, name: core.FuncName(pkg, fd), res: res,
		objIDs:      map[types.Object]int{},
		sliceOwner:  map[types.Object]string{},
		strideOwner: map[types.Object]string{},
		unpaired:    map[types.Object]bool{},
		units:       map[types.Object]map[string]bool{},
		ownerName:   map[string]string{},
		alias:       map[types.Object]ast.Expr{},
		inAlias:     map[types.Object]bool{},
		incFlags:    map[types.Object]map[string]bool{},
	}
	obj, _ := pkg.TypesInfo.Defs[fd.Name].(*types.Func)
	if obj == nil {
		return
	}
	sig := obj.Type().(*types.Signature)
	adj, byName := sigPairs(sig)
	ps := sig.Params()
	pairOf := map[int]int{}
	for i, j := range byName {
		pairOf[i] = j
	}
	for i, j := range adj {
		if k, ok := byName[i]; ok && k != j {
			res.Add(core.Finding{
				Rule: "STRIDE.convention",
				Key:  fmt.Sprintf("STRIDE.convention|%s|%s", fa.name, ps.At(i).Name()),
				Pos:  core.Pos(fd.Pos()), Func: fa.name,
				Msg: fmt.Sprintf("parameter %s is followed by %s but %s is named for it", ps.At(i).Name(), ps.At(j).Name(), ps.At(k).Name()),
			})
		}
		pairOf[i] = j
	}
	usedStride := map[int]bool{}
	for i, j := range pairOf {
		s := ps.At(i)
		k := "param:" + s.Name()
		fa.sliceOwner[s] = k
		fa.strideOwner[ps.At(j)] = k
		usedStride[j] = true
		res.Count("param_pairs", 1)
	}
	for i := 0; i < ps.Len(); i++ {
		p := ps.At(i)
		if isSlice(p.Type()) {
			if _, ok := fa.sliceOwner[p]; !ok {
				// The LAPACK workspace convention: work/iwork have no layout
				// of their own, routines lay matrices out in them with any
				// stride they like (Dgesvd: "WORK(IU) is LDA by N").
				if n := p.Name(); n == "work" || n == "iwork" || n == "rwork" {
					res.Count("workspace_params_exempt", 1)
					continue
				}
				// An unpaired slice parameter: contiguous storage (packed,
				// tau, pivots, d/e). It owns the empty unit set.
				fa.sliceOwner[p] = "param:" + p.Name()
				res.Count("unpaired_slice_params", 1)
			}
		}
	}
	fa.findAliases(fd.Body)
	fa.fixpoint(fd.Body)
	// boolean locals that record a test of some vector's Inc
	ast.Inspect(fd.Body, func(n ast.Node) bool {
		as, ok := n.(*ast.AssignStmt)
		if !ok || len(as.Lhs) != len(as.Rhs) {
			return true
		}
		for i, l := range as.Lhs {
			id, ok := l.(*ast.Ident)
			if !ok {
				continue
			}
			o := core.ObjOf(fa.info, id)
			if o == nil {
				continue
			}
			ast.Inspect(as.Rhs[i], func(m ast.Node) bool {
				if sel, ok := m.(*ast.SelectorExpr); ok && sel.Sel.Name == "Inc" {
					if p, ok := fa.path(sel.X); ok {
						if fa.incFlags[o] == nil {
							fa.incFlags[o] = map[string]bool{}
						}
						fa.incFlags[o][p] = true
					}
				}
				return true
			})
		}
		return true
	})
	nunit := 0
	for _, u := range fa.units {
		if len(u) > 0 {
			nunit++
		}
	}
	res.Count("unit_typed_locals", nunit)
	before := len(res.Findings)
	ob := res.Obligations
	fa.check(fd.Body)
	fa.checkUnitIndex(fd)
	fa.checkFullRange(fd)
	fa.checkFlatFill(fd)
	fa.checkWorkBlocks()
	fa.checkWorkNext(fd.Body)
	if res.Obligations > ob {
		res.Count("functions_with_obligations", 1)
		res.Sample(map[string]any{"rule": "STRIDE", "func": fa.name, "obligations": res.Obligations - ob,
			"unit_typed_locals": nunit, "flags": len(res.Findings) - before})
	}
}

// checkVectorAsMatrix implements STRIDE.veclda: a plain vector parameter of
// the current routine (a slice parameter with no ld*/inc* of its own, hence
// contiguous: d, e, tau, ...) that is handed to a callee's matrix parameter is
// a single row or a single column of contiguous elements, so the leading
// dimension passed with it is a constant (row-major: a column vector has
// ld 1) or at least not a bare dimension of the problem: with ld = n the
// callee would address every n-th element of a contiguous vector.
func (fa *funcAnalysis) checkVectorAsMatrix(owner string, base ast.Expr, strideParam *types.Var, strideArg ast.Expr, c *ast.CallExpr, sliceIdx int) {
	if !strings.HasPrefix(strings.ToLower(strideParam.Name()), "ld") || !strings.HasPrefix(owner, "param:") {
		return
	}
	for _, k := range fa.strideOwner {
		if k == owner {
			return // the operand has a stride of its own
		}
	}
	id, ok := base.(*ast.Ident)
	if !ok {
		return
	}
	fa.res.Obligations++
	fa.res.Count("plain_vectors_passed_as_matrices", 1)
	// the LAPACK convention "..., rows, cols, a, lda": only a single column
	// (cols is the constant 1) makes the leading dimension the element step
	if sliceIdx < 1 {
		return
	}
	if tv, ok := fa.info.Types[c.Args[sliceIdx-1]]; !ok || tv.Value == nil || tv.Value.ExactString() != "1" {
		return
	}
	fa.res.Count("plain_vectors_passed_as_single_columns", 1)
	if tv, ok := fa.info.Types[strideArg]; ok && tv.Value != nil {
		return
	}
	// max(1, k) style arguments and anything that is not a bare variable are
	// left alone; a bare integer variable that is not a stride is a dimension
	aid, ok := ast.Unparen(strideArg).(*ast.Ident)
	if !ok {
		return
	}
	name := strings.ToLower(aid.Name)
	if strings.HasPrefix(name, "ld") || strings.HasPrefix(name, "inc") {
		return
	}
	fa.res.Add(core.Finding{
		Rule: "STRIDE.veclda",
		Key:  fmt.Sprintf("STRIDE.veclda|%s|%s ld=%s", fa.name, id.Name, aid.Name),
		Pos:  core.Pos(strideArg.Pos()),
		Func: fa.name,
		Msg: fmt.Sprintf("%s is a contiguous vector (it has no leading dimension of its own) but is passed as a one-column matrix with leading dimension %s, a problem dimension: in row-major storage the callee then addresses every %s-th element (a column vector has leading dimension 1)",
			id.Name, aid.Name, aid.Name),
	})
}

// checkUnitIndex implements STRIDE.unitidx. The unit-stride fast paths of the
// BLAS routines address x[i] with the bare loop counter; that is the same
// element as x[kx+i*incX] only when incX == 1. For every vector parameter
// paired with an inc* parameter, an index expression that carries no unit of
// that increment (and is not a constant) must be unreachable in the
// control-flow graph pruned to the edges consistent with inc != 1
// (`incX == 1` false, `incX != 1` true, under &&, || and !). A fast path
// guarded by the other vector's increment only (`if incX == 1 { … y[i] … }`)
// reads and writes the wrong elements of y for incY != 1.
func (fa *funcAnalysis) checkUnitIndex(fd *ast.FuncDecl) {
	// vector parameters: slice params whose stride param is named inc*
	incOf := map[string]types.Object{} // owner key -> inc param
	for o, k := range fa.strideOwner {
		if strings.HasPrefix(strings.ToLower(o.Name()), "inc") {
			incOf[k] = o
		}
	}
	if len(incOf) == 0 {
		return
	}
	type siteT struct {
		ix    *ast.IndexExpr
		owner string
	}
	var sites []siteT
	ast.Inspect(fd.Body, func(n ast.Node) bool {
		switch x := n.(type) {
		case *ast.FuncLit:
			return false
		case *ast.IndexExpr:
			k, ok := fa.baseOwner(x.X)
			if !ok || incOf[k] == nil {
				return true
			}
			// numeric vectors only: Dlaswp's (ipiv []int, incX) uses the
			// "increment" as a direction flag and indexes ipiv by row
			if tv, ok := fa.info.Types[x]; !ok || !isFloatOrComplex(tv.Type) {
				return true
			}
			if tv, ok := fa.info.Types[x.Index]; ok && tv.Value != nil {
				return true
			}
			units := map[string]bool{}
			fa.exprUnits(x.Index, units)
			if units[k] {
				return true
			}
			sites = append(sites, siteT{x, k})
		}
		return true
	})
	if len(sites) == 0 {
		return
	}
	g := cfgx.New(fd.Body, fa.info)
	reachFor := map[string][]bool{}
	for _, s := range sites {
		fa.res.Obligations++
		fa.res.Count("unit_indexed_vector_elements", 1)
		reach, ok := reachFor[s.owner]
		if !ok {
			inc := incOf[s.owner]
			assumeInc := func(c ast.Expr) (bool, bool) {
				be, ok := c.(*ast.BinaryExpr)
				if !ok || (be.Op != token.EQL && be.Op != token.NEQ) {
					return false, false
				}
				id, ok := ast.Unparen(be.X).(*ast.Ident)
				if !ok || core.ObjOf(fa.info, id) != inc {
					return false, false
				}
				tv, ok := fa.info.Types[be.Y]
				if !ok || tv.Value == nil || tv.Value.ExactString() != "1" {
					return false, false
				}
				// inc != 1 assumed
				return be.Op == token.NEQ, true
			}
			reach = g.ReachSome(cfgx.WithBoolDefs(fa.info, fd.Body, assumeInc), cfgx.StableLeaf(fa.info, fd.Body))
			reachFor[s.owner] = reach
		}
		loc, ok := g.Where[s.ix]
		if !ok || !reach[loc.Block] {
			continue
		}
		fa.res.Add(core.Finding{
			Rule: "STRIDE.unitidx",
			Key:  fmt.Sprintf("STRIDE.unitidx|%s|%s", fa.name, types.ExprString(s.ix)),
			Pos:  core.Pos(s.ix.Pos()), Func: fa.name,
			Msg: fmt.Sprintf("%s addresses the vector %s without its increment %s on a path that is feasible with %s != 1: for a non-unit increment this is not the element the operation defines",
				types.ExprString(s.ix), fa.ownerLabel(s.owner), incOf[s.owner].Name(), incOf[s.owner].Name()),
		})
	}
}

func isFloatOrComplex(t types.Type) bool {
	b, ok := t.Underlying().(*types.Basic)
	return ok && b.Info()&(types.IsFloat|types.IsComplex) != 0
}

// checkFullRange implements STRIDE.fullrange. A BLAS vector operand is
// "at least (n-1)*|inc|+1 elements long": callers hand in longer slices
// (workspaces, rows of a matrix) and everything behind the n-th element is
// outside the addressed region. A loop `for i := range y { y[i] = … }` over
// the parameter itself therefore also rewrites the elements behind the
// operand; the unit-stride arms range over `y[:n]` (or reslice first:
// `x = x[:n]`). Reported: a range over the bare identifier of a numeric
// vector parameter that has an inc* parameter and is never reassigned, whose
// body stores into that parameter.
func (fa *funcAnalysis) checkFullRange(fd *ast.FuncDecl) {
	vec := map[types.Object]bool{}
	for o, k := range fa.strideOwner {
		if !strings.HasPrefix(strings.ToLower(o.Name()), "inc") {
			continue
		}
		for so, sk := range fa.sliceOwner {
			if sk == k {
				vec[so] = true
			}
		}
	}
	if len(vec) == 0 {
		return
	}
	reassigned := map[types.Object]bool{}
	ast.Inspect(fd.Body, func(n ast.Node) bool {
		if as, ok := n.(*ast.AssignStmt); ok {
			for _, l := range as.Lhs {
				if id, ok := l.(*ast.Ident); ok {
					if o := core.ObjOf(fa.info, id); vec[o] {
						reassigned[o] = true
					}
				}
			}
		}
		return true
	})
	ast.Inspect(fd.Body, func(n ast.Node) bool {
		rs, ok := n.(*ast.RangeStmt)
		if !ok {
			return true
		}
		id, ok := ast.Unparen(rs.X).(*ast.Ident)
		if !ok {
			return true
		}
		o := core.ObjOf(fa.info, id)
		if !vec[o] || reassigned[o] {
			return true
		}
		if tv, ok := fa.info.Types[rs.X]; ok {
			if sl, ok := tv.Type.Underlying().(*types.Slice); !ok || !isFloatOrComplex(sl.Elem()) {
				return true
			}
		}
		stores := false
		ast.Inspect(rs.Body, func(m ast.Node) bool {
			if as, ok := m.(*ast.AssignStmt); ok {
				for _, l := range as.Lhs {
					if ix, ok := ast.Unparen(l).(*ast.IndexExpr); ok {
						if b, ok := ast.Unparen(ix.X).(*ast.Ident); ok && core.ObjOf(fa.info, b) == o {
							stores = true
						}
					}
				}
			}
			return true
		})
		fa.res.Obligations++
		fa.res.Count("ranges_over_vector_parameters", 1)
		if stores {
			fa.res.Add(core.Finding{
				Rule: "STRIDE.fullrange",
				Key:  fmt.Sprintf("STRIDE.fullrange|%s|%s", fa.name, o.Name()),
				Pos:  core.Pos(rs.Pos()), Func: fa.name,
				Msg: fmt.Sprintf("the loop ranges over the whole slice %s and stores into it: %s is only required to hold at least the addressed elements, so elements behind the operand (trailing length of a longer slice handed in by the caller) are overwritten; range over %s[:count]", o.Name(), o.Name(), o.Name()),
			})
		}
		return true
	})
}

// checkFlatFill implements STRIDE.flatfill. The rows of a matrix operand are
// ld elements apart but only cols long; the ld-cols elements between them
// belong to the caller (the neighbouring columns when the operand is a column
// block of a wider matrix). Zeroing or scaling an operand is therefore done
// row by row. A single loop `for i := range b[:ldb*(m-1)+n] { b[i] = … }`, or
// clear(b[:ldb*(m-1)+n]), walks across the padding. Reported: a range over (or
// clear of) a reslice of a matrix parameter whose upper bound carries that
// parameter's own ld unit, when the body stores through the range key.
func (fa *funcAnalysis) checkFlatFill(fd *ast.FuncDecl) {
	ldOf := map[string]bool{}
	for o, k := range fa.strideOwner {
		if strings.HasPrefix(strings.ToLower(o.Name()), "ld") {
			ldOf[k] = true
		}
	}
	flat := func(e ast.Expr) (string, *ast.SliceExpr, bool) {
		se, ok := ast.Unparen(e).(*ast.SliceExpr)
		if !ok || se.High == nil {
			return "", nil, false
		}
		k, ok := fa.baseOwner(se.X)
		if !ok {
			return "", nil, false
		}
		// matrix operands: a slice parameter with an ld* parameter, or the
		// Data of a struct that has a Stride (blas64.General and friends)
		if !ldOf[k] {
			sel, isSel := ast.Unparen(se.X).(*ast.SelectorExpr)
			if !isSel || !strings.HasPrefix(k, "path:") {
				return "", nil, false
			}
			tv, ok := fa.info.Types[sel.X]
			if !ok {
				return "", nil, false
			}
			st, ok := tv.Type.Underlying().(*types.Struct)
			if !ok {
				return "", nil, false
			}
			hasStride := false
			for i := 0; i < st.NumFields(); i++ {
				if st.Field(i).Name() == "Stride" {
					hasStride = true
				}
			}
			if !hasStride {
				return "", nil, false
			}
		}
		units := map[string]bool{}
		fa.exprUnits(se.High, units)
		if !units[k] {
			// between two Stride structs the extent may be written with the
			// other operand's (equal) stride
			any := false
			if strings.HasPrefix(k, "path:") {
				for u := range units {
					if strings.HasPrefix(u, "path:") {
						any = true
					}
				}
			}
			if !any {
				return "", nil, false
			}
		}
		// a row slice a[i*lda : i*lda+n] has the unit in its low bound too
		if se.Low != nil {
			lu := map[string]bool{}
			fa.exprUnits(se.Low, lu)
			if lu[k] {
				return "", nil, false
			}
		}
		return k, se, true
	}
	report := func(pos token.Pos, k string, what string) {
		fa.res.Add(core.Finding{
			Rule: "STRIDE.flatfill",
			Key:  fmt.Sprintf("STRIDE.flatfill|%s|%s", fa.name, fa.ownerLabel(k)),
			Pos:  core.Pos(pos), Func: fa.name,
			Msg: fmt.Sprintf("%s walks the matrix operand %s as one contiguous range whose length is built from its leading dimension: the elements between the rows (stride padding, i.e. the neighbouring columns of an enclosing matrix) are written too", what, fa.ownerLabel(k)),
		})
	}
	// locals defined as such a flat reslice: btmp := b[:ldb*(m-1)+n]
	flatLocal := map[types.Object]struct {
		k  string
		se *ast.SliceExpr
	}{}
	ast.Inspect(fd.Body, func(n ast.Node) bool {
		if as, ok := n.(*ast.AssignStmt); ok && len(as.Lhs) == len(as.Rhs) {
			for i, l := range as.Lhs {
				if id, ok := l.(*ast.Ident); ok {
					if k, se, ok := flat(as.Rhs[i]); ok {
						if o := core.ObjOf(fa.info, id); o != nil {
							flatLocal[o] = struct {
								k  string
								se *ast.SliceExpr
							}{k, se}
						}
					}
				}
			}
		}
		return true
	})
	flatOrLocal := func(e ast.Expr) (string, *ast.SliceExpr, types.Object, bool) {
		if k, se, ok := flat(e); ok {
			return k, se, nil, true
		}
		if id, ok := ast.Unparen(e).(*ast.Ident); ok {
			if fl, ok := flatLocal[core.ObjOf(fa.info, id)]; ok {
				return fl.k, fl.se, core.ObjOf(fa.info, id), true
			}
		}
		return "", nil, nil, false
	}
	ast.Inspect(fd.Body, func(n ast.Node) bool {
		switch x := n.(type) {
		case *ast.RangeStmt:
			k, se, loc, ok := flatOrLocal(x.X)
			if !ok {
				return true
			}
			fa.res.Obligations++
			fa.res.Count("flat_ranges_over_matrix_operands", 1)
			key, _ := x.Key.(*ast.Ident)
			if key == nil {
				return true
			}
			ko := core.ObjOf(fa.info, key)
			stores := false
			ast.Inspect(x.Body, func(m ast.Node) bool {
				if as, ok := m.(*ast.AssignStmt); ok {
					for _, l := range as.Lhs {
						if ix, ok := ast.Unparen(l).(*ast.IndexExpr); ok {
							sameBase := false
							if bk, ok := fa.baseOwner(ix.X); ok && bk == k {
								sameBase = true
							}
							if b, ok := ast.Unparen(ix.X).(*ast.Ident); ok && loc != nil && core.ObjOf(fa.info, b) == loc {
								sameBase = true
							}
							if sameBase {
								if id, ok := ast.Unparen(ix.Index).(*ast.Ident); ok && core.ObjOf(fa.info, id) == ko {
									stores = true
								}
							}
						}
					}
				}
				return true
			})
			if stores {
				report(x.Pos(), k, "the loop over "+types.ExprString(se))
			}
		case *ast.CallExpr:
			if id, ok := x.Fun.(*ast.Ident); ok && id.Name == "copy" && len(x.Args) == 2 {
				if k, se, _, ok := flatOrLocal(x.Args[0]); ok {
					fa.res.Obligations++
					fa.res.Count("flat_ranges_over_matrix_operands", 1)
					report(x.Pos(), k, "copy("+types.ExprString(se)+", …)")
				}
			}
			if id, ok := x.Fun.(*ast.Ident); ok && (id.Name == "clear" || id.Name == "zero") && len(x.Args) == 1 {
				if k, se, _, ok := flatOrLocal(x.Args[0]); ok {
					fa.res.Obligations++
					fa.res.Count("flat_ranges_over_matrix_operands", 1)
					report(x.Pos(), k, id.Name+"("+types.ExprString(se)+")")
				}
			}
			// a vector kernel of internal/asm handed the whole extent
			if fn, _ := typeutil.Callee(fa.info, x).(*types.Func); fn != nil && fn.Pkg() != nil && strings.Contains(fn.Pkg().Path(), "/internal/asm/") {
				for _, a := range x.Args {
					if k, se, _, ok := flatOrLocal(a); ok {
						fa.res.Obligations++
						fa.res.Count("flat_ranges_over_matrix_operands", 1)
						report(x.Pos(), k, fn.Name()+"(… "+types.ExprString(se)+" …)")
					}
				}
			}
		}
		return true
	})
}
