// Package nilrecv: NILRECV — no call passes a pointer that is the constant
// nil to a function that dereferences that parameter unconditionally.
//
// The typical instance is `var tmp *T; tmp.Method(x)` on a slow path (an
// operand that does not implement the Raw* fast-path interface): the code
// compiles, the fast path is what tests exercise, and the slow path panics
// with a nil dereference for every input.
package nilrecv

import (
	"fmt"
	"go/token"
	"go/types"
	"sort"
	"strings"

	"gverif/core"

	"golang.org/x/tools/go/ssa"
	"golang.org/x/tools/go/ssa/ssautil"
)

type key struct {
	f *ssa.Function
	i int
}

type analysis struct {
	memo map[key]int // 0 unknown, 1 in progress, 2 no, 3 yes
}

// mustDeref reports whether f dereferences its i-th parameter (receiver
// first) on every path from its entry to a return, directly or by handing
// it on to a function that does: a nil argument cannot survive the call.
func (a *analysis) mustDeref(f *ssa.Function, i int, depth int) bool {
	if f == nil || len(f.Blocks) == 0 || i >= len(f.Params) || depth > 6 {
		return false
	}
	k := key{f, i}
	switch a.memo[k] {
	case 1, 2:
		return false
	case 3:
		return true
	}
	a.memo[k] = 1
	p := f.Params[i]
	// blocks that dereference p
	derefs := make([]bool, len(f.Blocks))
	for bi, b := range f.Blocks {
		for _, ins := range b.Instrs {
			hit := false
			switch x := ins.(type) {
			case *ssa.FieldAddr:
				hit = x.X == p
			case *ssa.UnOp:
				hit = x.X == p && x.Op == token.MUL
			case *ssa.IndexAddr:
				if x.X == p {
					_, hit = p.Type().Underlying().(*types.Pointer)
				}
			case *ssa.Store:
				hit = x.Addr == p
			case ssa.CallInstruction:
				if _, isGo := ins.(*ssa.Go); isGo {
					continue
				}
				if _, isDefer := ins.(*ssa.Defer); isDefer {
					continue
				}
				callee := x.Common().StaticCallee()
				if callee == nil {
					continue
				}
				for j, arg := range x.Common().Args {
					if arg == p && a.mustDeref(callee, j, depth+1) {
						hit = true
					}
				}
			}
			if hit {
				derefs[bi] = true
				break
			}
		}
	}
	// p is dereferenced on every path to a return: no return is reachable
	// from the entry through blocks that do not dereference it
	res := true
	seen := make([]bool, len(f.Blocks))
	var walk func(b *ssa.BasicBlock)
	walk = func(b *ssa.BasicBlock) {
		if seen[b.Index] || !res {
			return
		}
		seen[b.Index] = true
		if derefs[b.Index] {
			return
		}
		if len(b.Instrs) > 0 {
			if _, isRet := b.Instrs[len(b.Instrs)-1].(*ssa.Return); isRet {
				res = false
				return
			}
		}
		for _, s := range b.Succs {
			walk(s)
		}
	}
	walk(f.Blocks[0])
	if res {
		a.memo[k] = 3
	} else {
		a.memo[k] = 2
	}
	return res
}

func Run(conf core.Config, scope core.Scope) *core.Result {
	patterns := scope.Patterns
	res := core.NewResult("NILRECV")
	res.Rules = append(res.Rules, "NILRECV: no static call passes the constant nil pointer as an argument (receiver included) that the callee dereferences on every path to a return, directly or through the functions it hands the argument on to")
	res.Configs = append(res.Configs, conf.String())
	pkgs, err := core.LoadAll(conf, patterns...)
	if err != nil {
		res.Brokenf("%v", err)
		return res
	}
	prog, spkgs := ssautil.AllPackages(pkgs, ssa.InstantiateGenerics)
	prog.Build()
	a := &analysis{memo: map[key]int{}}
	var funcs []*ssa.Function
	root := map[*ssa.Package]bool{}
	for _, sp := range spkgs {
		if sp != nil {
			root[sp] = true
		}
	}
	for f := range ssautil.AllFunctions(prog) {
		top := f
		for top.Parent() != nil {
			top = top.Parent()
		}
		if top.Pkg == nil || !root[top.Pkg] || f.Blocks == nil || f.Synthetic != "" {
			continue
		}
		if pos := f.Pos(); pos.IsValid() && (strings.HasSuffix(core.Fset.Position(pos).Filename, "_test.go") || !scope.InFile(pos)) {
			continue
		}
		funcs = append(funcs, f)
	}
	sort.Slice(funcs, func(i, j int) bool { return funcs[i].String() < funcs[j].String() })
	for _, f := range funcs {
		res.Count("functions", 1)
		for _, b := range f.Blocks {
			for _, ins := range b.Instrs {
				// direct dereference of constant nil
				switch x := ins.(type) {
				case *ssa.FieldAddr:
					if c, ok := x.X.(*ssa.Const); ok && c.IsNil() {
						res.Add(core.Finding{Rule: "NILRECV", Key: "NILRECV|" + f.String() + "|field", Pos: core.Pos(x.Pos()), Func: f.String(),
							Msg: "field of a constant nil pointer is addressed"})
					}
				}
				call, ok := ins.(ssa.CallInstruction)
				if !ok {
					continue
				}
				callee := call.Common().StaticCallee()
				if callee == nil {
					continue
				}
				for j, arg := range call.Common().Args {
					if _, isPtr := arg.Type().Underlying().(*types.Pointer); !isPtr {
						continue
					}
					res.Count("pointer_args", 1)
					c, ok := arg.(*ssa.Const)
					if !ok || !c.IsNil() {
						continue
					}
					res.Count("nil_pointer_args", 1)
					res.Obligations++
					if a.mustDeref(callee, j, 0) {
						what := fmt.Sprintf("argument %d", j)
						if callee.Signature.Recv() != nil && j == 0 {
							what = "receiver"
						}
						res.Add(core.Finding{Rule: "NILRECV", Key: "NILRECV|" + f.String() + "|" + callee.Name(), Pos: core.Pos(ins.Pos()), Func: f.String(),
							Msg: fmt.Sprintf("%s is called with a constant nil %s, which it dereferences unconditionally: this path panics for every input", callee.String(), what)})
					}
				}
			}
		}
	}
	res.Floor("functions", 100)
	return res
}
