// Package core holds the plumbing shared by all engines: loading /repo,
// findings, known-finding triage, floors, evidence and the output contract.
package core

import (
	"encoding/json"
	"fmt"
	"go/ast"
	"go/token"
	"go/types"
	"os"
	"path/filepath"
	"sort"
	"strings"
	"sync"
	"time"

	"golang.org/x/tools/go/packages"
)

// RepoDir is the tree being analysed. It can be overridden with
// GVERIF_REPO for self tests against scratch copies.
var RepoDir = func() string {
	if d := os.Getenv("GVERIF_REPO"); d != "" {
		return d
	}
	return "/repo"
}()

// VerifDir is where evidence and known findings live.
var VerifDir = func() string {
	if d := os.Getenv("GVERIF_HOME"); d != "" {
		return d
	}
	return "/verif"
}()

const ModPath = "gonum.org/v1/gonum"

// Config is one build configuration.
type Config struct {
	Tags   string // space separated
	GOARCH string // "" = amd64
}

func (c Config) String() string {
	a := c.GOARCH
	if a == "" {
		a = "amd64"
	}
	t := c.Tags
	if t == "" {
		t = "default"
	}
	return a + "/" + strings.ReplaceAll(t, " ", "+")
}

// Finding is one reported construct.
type Finding struct {
	Rule string `json:"rule"`
	// Key identifies the construct independent of line numbers:
	// rule|pkg.Func|operand-or-detail.
	Key  string `json:"key"`
	Pos  string `json:"pos"`
	Func string `json:"func,omitempty"`
	Msg  string `json:"msg"`
	// Path carries, for path rules, the entry and the offending exit.
	Path []string `json:"path,omitempty"`
}

// Result is what one engine run (one scope) reports.
type Result struct {
	Engine      string
	Findings    []Finding
	Counts      map[string]int
	Obligations int
	Samples     []any
	Configs     []string
	Broken      []string
	Notes       []string
	Rules       []string
}

func NewResult(engine string) *Result {
	return &Result{Engine: engine, Counts: map[string]int{}}
}

func (r *Result) Count(name string, n int) { r.Counts[name] += n }

func (r *Result) Add(f Finding) { r.Findings = append(r.Findings, f) }

func (r *Result) Brokenf(format string, a ...any) {
	r.Broken = append(r.Broken, fmt.Sprintf(format, a...))
}

// Stale records an exemption-table entry that no longer suppresses anything
// (the code it was written for was repaired or refactored). An unused entry
// cannot hide a violation, so it is reported as a note, not as a failure.
func (r *Result) Stale(format string, a ...any) {
	r.Notes = append(r.Notes, fmt.Sprintf(format, a...))
	r.Counts["stale_exemptions"]++
}

func (r *Result) Sample(v any) {
	if len(r.Samples) < 6 {
		r.Samples = append(r.Samples, v)
	}
}

// Floor fails the run as broken when a rule matched fewer instances than
// were confirmed by hand (a rule that matches nothing passes vacuously).
func (r *Result) Floor(name string, min int) {
	// The floors written in props.go are about 80 % of the counts confirmed on
	// the pinned tree; the check fails below half of that. A refactoring that
	// merges duplicated code into a helper can halve a count without the rule
	// having lost sight of anything, whereas a rule that has stopped matching
	// drops to (nearly) zero.
	min = (min + 1) / 2
	if r.Counts[name] < min {
		r.Brokenf("floor: %s matched %d instances, expected at least %d (rule no longer sees the code it was written for)", name, r.Counts[name], min)
	}
}

// Merge folds o into r.
func (r *Result) Merge(o *Result) {
	r.Findings = append(r.Findings, o.Findings...)
	for k, v := range o.Counts {
		r.Counts[o.Engine+"."+k] += v
	}
	r.Obligations += o.Obligations
	for _, s := range o.Samples {
		if len(r.Samples) < 24 {
			r.Samples = append(r.Samples, s)
		}
	}
	for _, c := range o.Configs {
		found := false
		for _, x := range r.Configs {
			if x == c {
				found = true
			}
		}
		if !found {
			r.Configs = append(r.Configs, c)
		}
	}
	r.Broken = append(r.Broken, o.Broken...)
	r.Notes = append(r.Notes, o.Notes...)
	r.Rules = append(r.Rules, o.Rules...)
}

// ---------------------------------------------------------------------
// loading

type loadKey struct {
	cfg      Config
	mode     packages.LoadMode
	patterns string
	epoch    int
}

// overlay replaces file contents for canary runs (see WithOverlay).
var (
	overlay      map[string][]byte
	overlayEpoch int
)

// ReadFile reads a file of the analysed tree, honouring the canary overlay.
func ReadFile(path string) ([]byte, error) {
	if b, ok := overlay[path]; ok {
		return b, nil
	}
	return os.ReadFile(path)
}

// WithOverlay runs fn with the repo-relative file's first occurrence of old
// replaced by new, in memory only (go/packages overlay; nothing is written
// to /repo). It reports whether the anchor text was present.
func WithOverlay(rel, old, new string, fn func()) bool {
	path := filepath.Join(RepoDir, rel)
	b, err := os.ReadFile(path)
	if err != nil {
		return false
	}
	// several edits of one file: old and new hold the parts joined by "\x00"
	olds, news := strings.Split(old, "\x00"), strings.Split(new, "\x00")
	if len(olds) != len(news) {
		return false
	}
	text := string(b)
	for i := range olds {
		if !strings.Contains(text, olds[i]) {
			return false
		}
		text = strings.Replace(text, olds[i], news[i], 1)
	}
	loadMu.Lock()
	overlay = map[string][]byte{path: []byte(text)}
	overlayEpoch++
	loadMu.Unlock()
	defer func() {
		loadMu.Lock()
		overlay = nil
		overlayEpoch++
		loadMu.Unlock()
	}()
	fn()
	return true
}

var (
	loadMu    sync.Mutex
	loadCache = map[loadKey][]*packages.Package{}
)

const SyntaxMode = packages.NeedName | packages.NeedFiles | packages.NeedCompiledGoFiles |
	packages.NeedImports | packages.NeedTypes | packages.NeedTypesSizes |
	packages.NeedSyntax | packages.NeedTypesInfo | packages.NeedModule

// Load loads the patterns (relative to the repo root, e.g. "./blas/gonum")
// under cfg with syntax and types for the named packages. Any load or type
// error is returned: an unanalysable tree is "broken", never "held".
func Load(cfg Config, patterns ...string) ([]*packages.Package, error) {
	return load(cfg, SyntaxMode, patterns...)
}

// LoadAll loads with syntax for dependencies too (needed for SSA).
func LoadAll(cfg Config, patterns ...string) ([]*packages.Package, error) {
	return load(cfg, SyntaxMode|packages.NeedDeps, patterns...)
}

func load(cfg Config, mode packages.LoadMode, patterns ...string) ([]*packages.Package, error) {
	loadMu.Lock()
	ep := 0
	if overlay != nil {
		ep = overlayEpoch
	}
	loadMu.Unlock()
	key := loadKey{cfg, mode, strings.Join(patterns, " "), ep}
	loadMu.Lock()
	if p, ok := loadCache[key]; ok {
		loadMu.Unlock()
		return p, nil
	}
	loadMu.Unlock()
	env := []string{}
	for _, e := range os.Environ() {
		if strings.HasPrefix(e, "GOFLAGS=") || strings.HasPrefix(e, "GOWORK=") ||
			strings.HasPrefix(e, "GOARCH=") || strings.HasPrefix(e, "GOPROXY=") ||
			strings.HasPrefix(e, "GOTOOLCHAIN=") || strings.HasPrefix(e, "GOSUMDB=") {
			continue
		}
		env = append(env, e)
	}
	env = append(env, "GOFLAGS=-mod=mod", "GOWORK=off", "GOPROXY=off", "GOSUMDB=off", "GOTOOLCHAIN=local")
	if cfg.GOARCH != "" {
		env = append(env, "GOARCH="+cfg.GOARCH)
	}
	pc := &packages.Config{
		Mode:  mode,
		Dir:   RepoDir,
		Env:   env,
		Tests: false,
		Fset:  Fset,
	}
	if overlay != nil {
		pc.Overlay = overlay
	}
	if cfg.Tags != "" {
		pc.BuildFlags = []string{"-tags=" + strings.ReplaceAll(cfg.Tags, " ", ",")}
	}
	pkgs, err := packages.Load(pc, patterns...)
	if err != nil {
		return nil, fmt.Errorf("load %v %v: %w", cfg, patterns, err)
	}
	if len(pkgs) == 0 {
		return nil, fmt.Errorf("load %v %v: zero packages", cfg, patterns)
	}
	var errs []string
	packages.Visit(pkgs, nil, func(p *packages.Package) {
		if !strings.HasPrefix(p.PkgPath, ModPath) {
			return
		}
		for _, e := range p.Errors {
			errs = append(errs, e.Error())
		}
	})
	if len(errs) > 0 {
		if len(errs) > 8 {
			errs = errs[:8]
		}
		return nil, fmt.Errorf("load %v %v: package errors:\n  %s", cfg, patterns, strings.Join(errs, "\n  "))
	}
	sort.Slice(pkgs, func(i, j int) bool { return pkgs[i].PkgPath < pkgs[j].PkgPath })
	loadMu.Lock()
	loadCache[key] = pkgs
	loadMu.Unlock()
	return pkgs, nil
}

// Fset is shared by every load and parse of a run.
var Fset = token.NewFileSet()

// Pos renders a position relative to the repo root.
func Pos(p token.Pos) string {
	if !p.IsValid() {
		return "?"
	}
	pos := Fset.Position(p)
	rel, err := filepath.Rel(RepoDir, pos.Filename)
	if err != nil || strings.HasPrefix(rel, "..") {
		rel = pos.Filename
	}
	return fmt.Sprintf("%s:%d", rel, pos.Line)
}

// RelPkg strips the module prefix.
func RelPkg(path string) string {
	return strings.TrimPrefix(strings.TrimPrefix(path, ModPath), "/")
}

// FuncName gives "pkg.(Recv).Name" for a declaration.
func FuncName(pkg *packages.Package, fd *ast.FuncDecl) string {
	name := fd.Name.Name
	if fd.Recv != nil && len(fd.Recv.List) > 0 {
		t := fd.Recv.List[0].Type
		if s, ok := t.(*ast.StarExpr); ok {
			t = s.X
		}
		if ix, ok := t.(*ast.IndexExpr); ok {
			t = ix.X
		}
		if id, ok := t.(*ast.Ident); ok {
			name = id.Name + "." + name
		}
	}
	return RelPkg(pkg.PkgPath) + "." + name
}

// IsGenerated reports whether the file has a "Code generated" header.
func IsGenerated(f *ast.File) bool {
	for _, cg := range f.Comments {
		if cg.Pos() > f.Package {
			break
		}
		for _, c := range cg.List {
			if strings.Contains(c.Text, "Code generated") && strings.Contains(c.Text, "DO NOT EDIT") {
				return true
			}
		}
	}
	return false
}

// ObjOf resolves an identifier to its object.
func ObjOf(info *types.Info, id *ast.Ident) types.Object {
	if o := info.Uses[id]; o != nil {
		return o
	}
	return info.Defs[id]
}

// ---------------------------------------------------------------------
// known findings

type KnownFinding struct {
	Properties []string `json:"properties"`
	Key        string   `json:"key"`
	What       string   `json:"what"`
	Input      string   `json:"failing_input,omitempty"`
}

type KnownFile struct {
	Comment  string         `json:"_comment,omitempty"`
	Findings []KnownFinding `json:"findings"`
	Fixed    []string       `json:"fixed"`
}

func LoadKnown() (*KnownFile, error) {
	b, err := os.ReadFile(filepath.Join(VerifDir, "known_findings.json"))
	if err != nil {
		if os.IsNotExist(err) {
			return &KnownFile{}, nil
		}
		return nil, err
	}
	var k KnownFile
	if err := json.Unmarshal(b, &k); err != nil {
		return nil, fmt.Errorf("known_findings.json: %w", err)
	}
	return &k, nil
}

// ---------------------------------------------------------------------
// evidence and exit contract

type Evidence struct {
	PropertyID  string         `json:"property_id"`
	Tier        string         `json:"tier"`
	Seed        int            `json:"seed"`
	Level       string         `json:"level"`
	Coverage    map[string]any `json:"coverage"`
	Assumptions []string       `json:"assumptions"`
	WallS       float64        `json:"wall_s"`
	Violations  int            `json:"violations"`
}

// Finish triages findings against the known-findings file, writes evidence
// and violation replay files, prints the contract lines and returns the
// process exit code.
func Finish(prop, tier string, seed int, start time.Time, res *Result, explanation string, assumptions []string) int {
	known, err := LoadKnown()
	if err != nil {
		res.Brokenf("%v", err)
		known = &KnownFile{}
	}
	knownByKey := map[string]KnownFinding{}
	for _, k := range known.Findings {
		for _, p := range k.Properties {
			if p == prop {
				knownByKey[k.Key] = k
			}
		}
	}
	// dedupe findings by key+pos
	seen := map[string]bool{}
	var viol, kf []Finding
	sort.SliceStable(res.Findings, func(i, j int) bool { return res.Findings[i].Key < res.Findings[j].Key })
	for _, f := range res.Findings {
		id := f.Key + "@" + f.Pos
		if seen[id] {
			continue
		}
		seen[id] = true
		if _, ok := knownByKey[f.Key]; ok {
			kf = append(kf, f)
		} else {
			viol = append(viol, f)
		}
	}
	evdir := filepath.Join(VerifDir, "evidence")
	os.MkdirAll(filepath.Join(evdir, "violations"), 0o755)

	printedKF := map[string]bool{}
	for _, f := range kf {
		if printedKF[f.Key] {
			continue
		}
		printedKF[f.Key] = true
		fmt.Printf("KNOWN-FINDING: property=%s %s at %s: %s\n", prop, f.Key, f.Pos, knownByKey[f.Key].What)
	}
	replay := ""
	if len(viol) > 0 {
		replay = filepath.Join(evdir, "violations", prop+".json")
		b, _ := json.MarshalIndent(map[string]any{"property": prop, "tier": tier, "violations": viol}, "", " ")
		os.WriteFile(replay, b, 0o644)
		for _, f := range viol {
			fmt.Printf("  [%s] %s: %s (%s)\n", f.Rule, f.Pos, f.Msg, f.Key)
			for _, p := range f.Path {
				fmt.Printf("      %s\n", p)
			}
		}
	} else {
		os.Remove(filepath.Join(evdir, "violations", prop+".json"))
	}
	for _, b := range res.Broken {
		fmt.Printf("BROKEN: property=%s %s\n", prop, b)
	}
	for _, n := range res.Notes {
		fmt.Printf("NOTE: property=%s %s\n", prop, n)
	}

	distinct := 0
	names := make([]string, 0, len(res.Counts))
	for k, v := range res.Counts {
		names = append(names, k)
		if v > 0 {
			distinct++
		}
	}
	sort.Strings(names)
	counts := map[string]int{}
	for _, k := range names {
		counts[k] = res.Counts[k]
	}
	discharged := res.Obligations - len(viol) - len(kf)
	if discharged < 0 {
		discharged = 0
	}
	samples := res.Samples
	if len(samples) == 0 {
		samples = []any{"(none)"}
	}
	ev := Evidence{
		PropertyID: prop, Tier: tier, Seed: seed, Level: "other",
		Coverage: map[string]any{
			"explanation":          explanation,
			"obligations":          res.Obligations,
			"discharged":           discharged,
			"evaluations":          res.Obligations,
			"distinct_nontrivial":  res.Obligations,
			"rule":                 "one obligation per (rule, construct) pair found in /repo's current source by the analyser; an obligation is non-trivial when the rule's pattern matched a real construct (sites with nothing to check are not counted)",
			"rule_instance_counts": counts,
			"rules":                res.Rules,
			"configurations":       res.Configs,
			"samples":              samples,
			"known_findings":       len(printedKF),
			"notes":                append([]string{}, res.Notes...),
			"exhaustive":           true,
			"checker_cmd":          strings.Join(os.Args, " "),
		},
		Assumptions: assumptions,
		WallS:       time.Since(start).Seconds(),
		Violations:  len(viol),
	}
	b, _ := json.MarshalIndent(ev, "", " ")
	if err := os.WriteFile(filepath.Join(evdir, prop+".json"), b, 0o644); err != nil {
		fmt.Printf("BROKEN: property=%s cannot write evidence: %v\n", prop, err)
		return 2
	}
	fmt.Printf("%s tier=%s obligations=%d discharged=%d known=%d violations=%d configs=%d wall=%.1fs\n",
		prop, tier, res.Obligations, discharged, len(printedKF), len(viol), len(res.Configs), ev.WallS)
	// a definite violation is reported as such even when another part of
	// the analysis could not be completed (the BROKEN lines above say which)
	if len(viol) > 0 {
		fmt.Printf("VIOLATION property=%s replay=%s\n", prop, replay)
		return 1
	}
	if len(res.Broken) > 0 {
		return 2
	}
	return 0
}

// Scope selects packages and, optionally, files within them.
type Scope struct {
	Patterns []string
	// Files, when non-nil, is consulted with the repo-relative path.
	Files func(rel string) bool
}

func Pkgs(p ...string) Scope { return Scope{Patterns: p} }

func (s Scope) InFile(p token.Pos) bool {
	if s.Files == nil {
		return true
	}
	pos := Fset.Position(p)
	rel, err := filepath.Rel(RepoDir, pos.Filename)
	if err != nil {
		return false
	}
	return s.Files(rel)
}

// PropertyAnchors reads the anchor file list of a property from
// properties.jsonl (given and fixed); used only to split lapack/gonum
// between C02 and C03.
func PropertyAnchors(id string) (map[string]bool, error) {
	b, err := os.ReadFile(filepath.Join(VerifDir, "properties.jsonl"))
	if err != nil {
		return nil, err
	}
	out := map[string]bool{}
	for _, line := range strings.Split(string(b), "\n") {
		if strings.TrimSpace(line) == "" {
			continue
		}
		var p struct {
			ID      string `json:"id"`
			Anchors struct {
				Files []string `json:"files"`
			} `json:"anchors"`
		}
		if err := json.Unmarshal([]byte(line), &p); err != nil {
			return nil, err
		}
		if p.ID == id {
			for _, f := range p.Anchors.Files {
				out[f] = true
			}
		}
	}
	if len(out) == 0 {
		return nil, fmt.Errorf("no anchors for %s", id)
	}
	return out, nil
}

// Only returns a copy of r restricted to findings of the given rule (counts
// and obligations are kept: they describe what was analysed).
func (r *Result) Only(rule string) *Result {
	o := *r
	o.Findings = nil
	for _, f := range r.Findings {
		if f.Rule == rule {
			o.Findings = append(o.Findings, f)
		}
	}
	return &o
}
