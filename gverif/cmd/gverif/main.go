package main

import (
	"flag"
	"fmt"
	"os"
	"strconv"
	"time"

	"gverif/core"
)

func main() {
	if len(os.Args) < 2 {
		fmt.Fprintln(os.Stderr, "usage: gverif check -property Cxx -tier quick|thorough | gverif engine <name> ...")
		os.Exit(2)
	}
	switch os.Args[1] {
	case "check":
		fs := flag.NewFlagSet("check", flag.ExitOnError)
		prop := fs.String("property", "", "property id")
		tier := fs.String("tier", "", "quick|thorough")
		fs.Parse(os.Args[2:])
		if *tier == "" {
			*tier = os.Getenv("VERIF_TIER")
		}
		if *tier == "" {
			*tier = "quick"
		}
		seed, _ := strconv.Atoi(os.Getenv("VERIF_SEED"))
		p, ok := properties[*prop]
		if !ok {
			fmt.Fprintf(os.Stderr, "unknown property %q\n", *prop)
			os.Exit(2)
		}
		start := time.Now()
		res := core.NewResult(*prop)
		func() {
			defer func() {
				if r := recover(); r != nil {
					res.Brokenf("analyser panic: %v", r)
				}
			}()
			p.run(*tier, res)
			runCanaries(res, propertyCanaries[*prop]...)
		}()
		os.Exit(core.Finish(*prop, *tier, seed, start, res, p.explanation, p.assumptions))
	case "canary":
		canaryAll()
	case "dump":
		// gverif dump <engine> : print all findings of an engine without triage
		dump(os.Args[2:])
	default:
		fmt.Fprintln(os.Stderr, "unknown command")
		os.Exit(2)
	}
}
