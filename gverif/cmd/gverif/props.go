package main

import (
	"fmt"
	"sort"
	"strings"

	"gverif/core"
	"gverif/engine/stride"
)

type property struct {
	run         func(tier string, res *core.Result)
	explanation string
	assumptions []string
}

var def = core.Config{}

var blasPkgs = []string{"./blas/gonum", "./blas/blas64", "./blas/blas32", "./blas/cblas128", "./blas/cblas64",
	"./internal/asm/f64", "./internal/asm/f32", "./internal/asm/c128", "./internal/asm/c64"}
var lapackPkgs = []string{"./lapack/gonum", "./lapack/lapack64"}

// lapackScope splits lapack/gonum between C02 and C03 by the properties'
// own anchor lists: a file anchored by the other property only is left to
// that property; shared auxiliaries (anchored by neither) belong to both.
func lapackScope(res *core.Result, self, other string) core.Scope {
	mine, err1 := core.PropertyAnchors(self)
	theirs, err2 := core.PropertyAnchors(other)
	if err1 != nil || err2 != nil {
		res.Brokenf("anchors: %v %v", err1, err2)
	}
	return core.Scope{Patterns: lapackPkgs, Files: func(rel string) bool {
		if mine[rel] {
			return true
		}
		return !theirs[rel]
	}}
}

var commonAssumptions = []string{
	"go/parser, go/types and golang.org/x/tools v0.29.0 (go/packages, go/cfg) are correct",
	"the rule tables and idiom lists frozen in /verif/gverif are the ones confirmed by reading the pinned tree (DESIGN.md §3)",
	"only the structural clauses named in the explanation are decided; value-level behaviour (arithmetic, rounding, orderings) is not",
}

var properties = map[string]*property{}

func init() {
	properties["C01"] = &property{
		explanation: "Decides structural necessary conditions of C01 for all BLAS code paths: STRIDE — no operand of blas/gonum, the blas64/blas32/cblas* wrappers or the internal/asm Go kernels is indexed, sliced or forwarded with another operand's ld/inc/Stride (units inferred by flow-insensitive fixpoint over integer locals). Does not decide arithmetic correctness of the loop nests, rounding, or assembly semantics.",
		assumptions: commonAssumptions,
		run: func(tier string, res *core.Result) {
			r := stride.Run(def, core.Pkgs(blasPkgs...))
			r.Floor("index_sites", 3000)
			r.Floor("call_pairs", 200)
			r.Floor("unit_typed_locals", 400)
			res.Merge(r)
		},
	}
}

func dump(args []string) {
	if len(args) == 0 {
		return
	}
	var res *core.Result
	switch args[0] {
	case "stride":
		res = stride.Run(def, core.Pkgs(args[1:]...))
	}
	if res == nil {
		return
	}
	sort.Slice(res.Findings, func(i, j int) bool { return res.Findings[i].Key < res.Findings[j].Key })
	for _, f := range res.Findings {
		fmt.Printf("%s\t%s\t%s\n", f.Pos, f.Key, f.Msg)
		if len(f.Path) > 0 {
			fmt.Printf("\t%s\n", strings.Join(f.Path, "\n\t"))
		}
	}
	keys := []string{}
	for k := range res.Counts {
		keys = append(keys, k)
	}
	sort.Strings(keys)
	for _, k := range keys {
		fmt.Printf("count %s = %d\n", k, res.Counts[k])
	}
	fmt.Println("obligations", res.Obligations, "broken", res.Broken)
}
