package main

import (
	"fmt"
	"sort"
	"strings"

	"gverif/core"
	"gverif/engine/aliasx"
	"gverif/engine/args"
	"gverif/engine/asmx"
	"gverif/engine/config"
	"gverif/engine/constfold"
	"gverif/engine/constx"
	"gverif/engine/decode"
	"gverif/engine/dspx"
	"gverif/engine/errx"
	"gverif/engine/factkind"
	"gverif/engine/factx"
	"gverif/engine/flagx"
	"gverif/engine/globalx"
	"gverif/engine/goproto"
	"gverif/engine/graphinv"
	"gverif/engine/idindex"
	"gverif/engine/initx"
	"gverif/engine/loopidx"
	"gverif/engine/matargs"
	"gverif/engine/modset"
	"gverif/engine/nilrecv"
	"gverif/engine/okflow"
	"gverif/engine/overlap"
	"gverif/engine/paramuse"
	"gverif/engine/pool"
	"gverif/engine/rawx"
	"gverif/engine/settingsx"
	"gverif/engine/sibx"
	"gverif/engine/stride"
	"gverif/engine/swapx"
	"gverif/engine/twin"
	"gverif/engine/worksize"
	"gverif/engine/zeroed"
)

type property struct {
	run         func(tier string, res *core.Result)
	explanation string
	assumptions []string
}

var def = core.Config{}

var blasPkgs = []string{"./blas/gonum", "./blas/blas64", "./blas/blas32", "./blas/cblas128", "./blas/cblas64",
	"./internal/asm/f64", "./internal/asm/f32", "./internal/asm/c128", "./internal/asm/c64"}
var lapackPkgs = []string{"./lapack/gonum", "./lapack/lapack64"}

// lapackScope splits lapack/gonum between C02 and C03 by the properties'
// own anchor lists: a file anchored by the other property only is left to
// that property; shared auxiliaries (anchored by neither) belong to both.
func lapackScope(res *core.Result, self, other string) core.Scope {
	mine, err1 := core.PropertyAnchors(self)
	theirs, err2 := core.PropertyAnchors(other)
	if err1 != nil || err2 != nil {
		res.Brokenf("anchors: %v %v", err1, err2)
	}
	return core.Scope{Patterns: lapackPkgs, Files: func(rel string) bool {
		if mine[rel] {
			return true
		}
		return !theirs[rel]
	}}
}

var commonAssumptions = []string{
	"go/parser, go/types and golang.org/x/tools v0.29.0 (go/packages, go/cfg) are correct",
	"the rule tables and idiom lists frozen in /verif/gverif are the ones confirmed by reading the pinned tree (DESIGN.md §3)",
	"only the structural clauses named in the explanation are decided; value-level behaviour (arithmetic, rounding, orderings) is not",
}

var properties = map[string]*property{}

// Frozen exemption tables for ARGS on lapack/gonum, one reason per line,
// each confirmed by reading the routine. A stale entry is reported as a note.
var lapackArgs = args.Options{
	RecvType: "Implementation",
	Unchecked: map[string]string{
		"Dlasy2": "doc comment: 'isgn must be 1 or -1, and n1 and n2 must be 0, 1, or 2, but these conditions are not checked'; internal 2x2 Sylvester kernel with a TODO for optional validation",
	},
	CompleteExempt: map[string]string{
		"Dlacn2.kase":  "reverse-communication state variable, every value is a legal state",
		"Dlantb.diag":  "any value other than blas.Unit means non-unit (as in the reference, LSAME)",
		"Dlaset.uplo":  "any value other than Upper/Lower means the full matrix (documented)",
		"Dlascl.kl":    "only meaningful for band kinds, which panic 'not implemented'",
		"Dlascl.ku":    "only meaningful for band kinds, which panic 'not implemented'",
		"Dlasq3.iter":  "in/out iteration counter of the dqds state",
		"Dlasq3.nDiv":  "in/out counter of the dqds state",
		"Dlasq3.nFail": "in/out counter of the dqds state",
		"Dlasq3.ttype": "in/out shift-type state",
		"Dlasq4.n0in":  "state of the dqds iteration carried between calls",
		"Dlasq4.ttype": "in/out shift-type state",
		"Dtgsja.k":     "block-structure output of Dggsvp3; the reference does not validate it either",
		"Dtgsja.l":     "block-structure output of Dggsvp3; the reference does not validate it either",
		"Ilaenv.n1":    "environment enquiry: problem dimension, every integer is legal (-1 = unused)",
		"Ilaenv.n2":    "environment enquiry: problem dimension, every integer is legal (-1 = unused)",
		"Ilaenv.n3":    "environment enquiry: problem dimension, every integer is legal (-1 = unused)",
		"Ilaenv.n4":    "environment enquiry: problem dimension, every integer is legal (-1 = unused)",
		"Iparmq.n":     "environment enquiry: every integer is legal",
		"Iparmq.ilo":   "environment enquiry: every integer is legal",
		"Iparmq.ihi":   "environment enquiry: every integer is legal",
		"Iparmq.lwork": "environment enquiry: unused by design (kept for signature compatibility)",
	},
	OptionalExempt: map[string]string{
		"Dtrevc3.vr": "the right-eigenvector section is skipped by `goto leftev` when side == EVLeft, which is exactly !rightv",
		"Dtrevc3.vl": "the left-eigenvector section is preceded by `if side == lapack.EVRight { return m }`, which is exactly !leftv",
	},
	LenExempt: map[string]string{
		"Dlascl.a":         "length check and uses are guarded by the same switch on kind (correlated branches); other kinds panic before",
		"Dtrevc3.selected": "length check and uses are both guarded by howmny == lapack.EVSelected (correlated branches)",
	},
}
var blasArgs = args.Options{RecvType: "Implementation"}

// The only functions outside init that write package-level state without a
// lock (GLOBAL.write), each a documented process-wide setting.
var globalWriters = globalx.Options{Allowed: map[string]string{
	"blas/blas32.Use|blas32":       "documented: 'Use sets the BLAS float32 implementation to be used by subsequent BLAS calls' — a process-wide setting made before use",
	"blas/blas64.Use|blas64":       "documented process-wide setting (Use)",
	"blas/cblas128.Use|cblas128":   "documented process-wide setting (Use)",
	"blas/cblas64.Use|cblas64":     "documented process-wide setting (Use)",
	"lapack/lapack64.Use|lapack64": "documented process-wide setting (Use)",
	"optimize.NewStatus|statuses":  "documented: 'NewStatus is intended to be called only during package initialization, and calls to NewStatus are not thread safe'",
}}

// Routines whose workspace-query answer WORKSIZE cannot relate to their
// enforced minimum, each confirmed by reading.
var worksizeExempt = map[string]string{
	"Dorghr":                 "nh = ihi-ilo: the argument checks force ihi >= ilo-1 (and ihi = -1, ilo = 0 when n == 0), a relation between two parameters that the lower-bound facts of the prover cannot express; with nh >= 0 both answers (1 when n == 0, max(1,nh)*nb otherwise) dominate max(1,nh)",
	"Dtrevc3.shortT":         "documented in the source: 'Normally we don't check slice lengths until after the workspace query. However, even in case of the workspace query we need to compute and return the value of m, and since the computation accesses t, we put the length check of t here.'",
	"Dtrevc3.badLenSelected": "same documented exception: m is computed from selected and t also in a workspace query",
	"Dlaqr23":                "the answer jw + max(Dgehrd query, Dormhr query) with jw = min(nw, kbot-ktop+1) exceeds the enforced 2*nw only through the constant tsize term of the nested answers (value-level); internal routine whose only caller Dlaqr04 takes the maximum with its own requirement",
}

func init() {
	properties["C01"] = &property{
		explanation: "Decides structural necessary conditions of C01 for all BLAS code paths: TWIN.generated — every generated float32/complex64 routine (and sgemm, the dot variants, the blas32/cblas64/cblas128 conversions), none of which has tests of its own at Level 2/3, is node for node the image of its tested float64/complex128 source under the generator's renaming; MODSET.blas — for all 142 routines the set of slice operands that may be written (SSA store/copy/call summaries with a level-sensitive points-to abstraction, bottom-up over the VTA call graph, analysed under the noasm tag so that every kernel has a Go body) equals the output operands of the BLAS standard for the routine's stem ('every read-only operand is unchanged', up to caller-supplied aliasing); STRIDE — no operand of blas/gonum, the blas64/blas32/cblas* wrappers or the internal/asm Go kernels is indexed, sliced or forwarded with another operand's ld/inc/Stride (units inferred by flow-insensitive fixpoint over integer locals). STRIDE.extent — the element count of a strided vector in its length check, its negative-increment start offset and (in the kernels) its loop bound is one quantity; the start-index arguments (ix, iy) of the strided kernels obey the index rules; FLAG.trans — no real-valued routine or blas64/blas32 wrapper that accepts blas.ConjTrans distinguishes it from blas.Trans in any condition or switch. BETA.noread — in each of the 138 arms selected by beta == 0 the operand being assigned is never read (no element read, compound assignment, value range or kernel call on it), so NaN/Inf left in the output storage cannot propagate when beta == 0. FLAG.neginc — the 18 Level 1 routines that return at once for a negative increment are discovered from their bodies; a routine that accepts negative values of its own increment parameter hands it to one of them unchanged only under a test that it is positive (Dgemv's beta-scaling of y). ASM.window/.tail/.units on the 56 assembly kernels. Does not decide arithmetic correctness of the loop nests, rounding, or the arithmetic of the assembly.",
		assumptions: commonAssumptions,
		run: func(tier string, res *core.Result) {
			r := stride.Run(def, core.Pkgs(blasPkgs...))
			r.Floor("index_sites", 3000)
			r.Floor("unit_indexed_vector_elements", 400)
			r.Floor("call_pairs", 200)
			r.Floor("unit_typed_locals", 400)
			r.Floor("strided_vector_indices", 500)
			r.Floor("matrix_index_expressions", 1200)
			res.Merge(r)
			// the pure-Go kernels are only compiled under noasm/safe
			rn := stride.Run(core.Config{Tags: "noasm"}, core.Pkgs("./internal/asm/f64", "./internal/asm/f32", "./internal/asm/c128", "./internal/asm/c64"))
			rn.Floor("index_sites", 100)
			res.Merge(rn)
			res.Merge(flagx.RunLenValue(def, core.Pkgs("./blas/gonum")))
			res.Merge(swapx.RunLogicDup(def, core.Pkgs("./blas/gonum")))
			ro := flagx.RunRetOffset(def, core.Pkgs("./blas/gonum"))
			res.Merge(ro)
			cs := loopidx.RunContinueSkip(def, core.Pkgs(blasPkgs...))
			cs.Floor("loops_with_trailing_induction_updates", 150)
			res.Merge(cs)
			sb := stride.RunStepBound(def, core.Pkgs(blasPkgs...))
			sb.Floor("loops_stepping_by_an_increment", 5)
			res.Merge(sb)
			res.Merge(stride.RunStepBound(core.Config{Tags: "noasm"}, core.Pkgs("./internal/asm/f64", "./internal/asm/f32")))
			li := loopidx.Run(def, core.Pkgs(blasPkgs...))
			li.Floor("counting_loops_with_element_stores", 300)
			res.Merge(li)
			fl := flagx.Run(def, core.Pkgs(blasPkgs...))
			fl.Floor("transpose_params", 50)
			fl.Floor("decisions", 60)
			res.Merge(fl)
			bz := flagx.RunBetaZero(def, core.Pkgs("./blas/gonum"))
			bz.Floor("beta_zero_arms_storing_an_operand", 110)
			bz.Floor("quick_return_guards_on_alpha", 30)
			bz.Floor("quick_return_guards_on_k", 10)
			res.Merge(bz)
			res.Merge(flagx.RunBetaZero(core.Config{Tags: "noasm"}, core.Pkgs("./internal/asm/f64", "./internal/asm/f32")))
			az := flagx.RunAlphaZero(def, core.Pkgs("./blas/gonum"))
			az.Floor("alpha_uses", 200)
			res.Merge(az)
			bs := flagx.RunBetaScale(def, core.Pkgs("./blas/gonum"))
			bs.Floor("beta_scaling_sites", 100)
			res.Merge(bs)
			for _, c := range []core.Config{{}, {Tags: "noasm"}} {
				bk := flagx.RunBetaScale(c, core.Pkgs("./internal/asm/f64", "./internal/asm/f32"))
				bk.Floor("beta_scaling_sites", 8)
				res.Merge(bk)
			}
			ud := flagx.RunUnitDiag(def, core.Pkgs("./blas/gonum"))
			ud.Floor("diagonal_reads", 100)
			res.Merge(ud)
			ni := flagx.RunNegInc(def, core.Pkgs("./blas/gonum"))
			ni.Floor("routines_returning_at_once_for_negative_increments", 12)
			ni.Floor("increment_parameters_forwarded_to_quick_returning_routines", 2)
			res.Merge(ni)
			for _, c := range []core.Config{{}, {Tags: "noasm"}} {
				pu := paramuse.Run(c, core.Pkgs(blasPkgs...))
				pu.Floor("parameters", 1500)
				res.Merge(pu)
			}
			am := asmx.Run()
			am.Floor("assembly_files", 50)
			am.Floor("loops", 120)
			am.Floor("loop_memory_accesses", 450)
			am.Floor("tail_memory_accesses", 100)
			am.Floor("byte_scalings", 40)
			res.Merge(am)
			ms := modset.Run(core.Config{Tags: "noasm"})
			ms.Floor("blas_routines", 140)
			ms.Floor("blas_slice_operands", 300)
			ms.Floor("functions_summarised", 3000)
			res.Merge(ms.Only("MODSET.blas"))
			t := twin.Run(twin.Which{Generated: true, Prefixes: []string{"blas/"}})
			t.Floor("generated_file_pairs", 17)
			t.Floor("twin_declaration_pairs", 140)
			t.Floor("twin_nodes_unified", 40000)
			res.Merge(t)
			if tier == "thorough" {
				for _, c := range []core.Config{{Tags: "safe"}, {GOARCH: "arm64"}, {GOARCH: "386"}} {
					res.Merge(stride.Run(c, core.Pkgs(blasPkgs...)))
				}
				rg := twin.RunRegen()
				rg.Floor("generator_scripts_run", 3)
				rg.Floor("regenerated_files_compared", 15)
				res.Merge(rg)
				res.Merge(modset.Run(core.Config{Tags: "safe"}).Only("MODSET.blas"))
			}
		},
	}
}

func lapackProp(self, other, what string) *property {
	return &property{
		explanation: "Decides structural necessary conditions of " + self + " on the lapack/gonum routines anchored by it (and shared auxiliaries), for every path and both workspace modes: ARGS.query — with lwork == -1 the only stores are to work[0] and the only calls are queries/scalar helpers ('a workspace query touches nothing else'); OKFLOW.use/.report — the ok/unconverged status of every callee (a singular pivot from Dgetrf/Dpotrf/Dtrtrs/...) reaches a branch, field or return, and no driver returns success on the path where a callee failed; ARGS.order/.lencheck/.complete — arguments are validated before any operand write, every slice use is preceded by a branch on its length, every int/flag/slice parameter is validated; STRIDE — no operand is addressed with another operand's leading dimension, so results cannot depend on which matrix's ld was used; a strided vector handed on to BLAS keeps its own increment (STRIDE.vecinc); a workspace block is used with one leading dimension throughout a routine and the region laid out after it starts that many rows further (STRIDE.workld/.worknext); FLAG.trans on the routines that accept ConjTrans; GUARD.operand — a call-only block guarded by `count > 0` on an integer parameter (ncvt/nru/ncc in Dbdsqr, 24 blocks) passes that count to every call in it, so the update of one optional operand is not guarded by the count of another; FLAG.uplomap — where a blas.Uplo flag is translated into another triangle-distinguishing enumeration (lapack.UpperTri/LowerTri) the branch for Upper names the Upper constant; OKFLOW.loopstatus — a status assigned inside a loop is read before the next iteration overwrites it (a blocked driver that keeps only the last panel's status); FACTKIND.pair — the Householder reflectors (a, tau) left by a QR, RQ, LQ or QL factorization routine reach only the multiply/generate routines of the same family (reaching producers on the CFG; found and repaired: Dggsvp3 applied the reflectors of Dgerq2 with Dorm2r, so mat.GSVD of a 2x5 pair panicked); LOOPIDX.origin — the key of a range over a local reslice base[lo:hi] is not used bare to index base (found and repaired in the same routine); WORKSIZE.fallback — where the supplied workspace is too small for the optimal block size (`if lwork < A + B*nb`) the reduced block size is exactly nb = (lwork - A)/B, checked as a polynomial identity of numerator and divisor (13 fallbacks), so the blocked path neither overruns work nor makes a callee reject a workspace the routine accepted; WORKSIZE.min/.set — on every path that returns in query mode the value stored to work[0] is proved (path-wise symbolic interpretation of the prologue in a max/min-of-polynomials normal form, block sizes and nested query answers >= 1, zero/positive facts from the quick-return tests) to be at least the minimum lwork the same routine enforces with panic(badLWork), so a caller passing the queried length is never rejected; WORKSIZE.querylen — no operand length panic is reachable in query mode, the drivers query their subroutines with nil operands (found and repaired: the quick-return answers of nine routines and Dsyev's missing store). " + what,
		assumptions: commonAssumptions,
		run: func(tier string, res *core.Result) {
			sc := lapackScope(res, self, other)
			r := stride.Run(def, sc)
			r.Floor("index_sites", 800)
			r.Floor("call_pairs", 300)
			res.Merge(r)
			res.Merge(stride.RunArgmaxBase(def, sc))
			res.Merge(loopidx.RunStaleFlag(def, sc))
			res.Merge(flagx.RunSentinel(def, sc))
			res.Merge(flagx.RunLenValue(def, sc))
			res.Merge(swapx.RunLogicDup(def, sc))
			res.Merge(flagx.RunQuickRHS(def, sc))
			o := lapackArgs
			a := args.Run(def, core.Scope{Patterns: []string{"./lapack/gonum"}, Files: sc.Files}, o)
			a.Floor("entry_points", 50)
			a.Floor("argument_checks", 350)
			a.Floor("query_mode_effects", 10)
			res.Merge(a)
			li := loopidx.Run(def, sc)
			li.Floor("counting_loops_with_element_stores", 100)
			res.Merge(li)
			res.Merge(flagx.Run(def, sc))
			res.Merge(paramuse.Run(def, core.Scope{Patterns: []string{"./lapack/gonum"}, Files: sc.Files}))
			ok := okflow.Run(def, core.Scope{Patterns: []string{"./lapack/gonum"}, Files: sc.Files})
			ok.Floor("status_call_sites", 10)
			res.Merge(ok)
			ce := worksize.RunCallee(def, core.Scope{Patterns: []string{"./lapack/gonum"}, Files: sc.Files})
			ce.Floor("delegations_compared", 60)
			res.Merge(ce)
			wi := flagx.RunWorkInit(def, core.Pkgs("./lapack/gonum"))
			wi.Floor("work_element_reads_and_updates", 100)
			res.Merge(wi)
			co := flagx.RunCholOrder(def, core.Pkgs("./lapack/gonum"))
			co.Floor("cholesky_solve_pairs", 4)
			res.Merge(co)
			us := flagx.RunUnset(def, core.Pkgs("./lapack/gonum"))
			us.Floor("flag_variable_uses", 3)
			res.Merge(us)
			ud := flagx.RunUnitDiag(def, core.Pkgs("./lapack/gonum"))
			ud.Floor("diagonal_reads", 8)
			res.Merge(ud)
			gd := flagx.RunGuardOperand(def, core.Pkgs("./lapack/gonum"))
			gd.Floor("count_guarded_call_blocks", 18)
			res.Merge(gd)
			um := flagx.RunUploMap(def, core.Pkgs("./lapack/gonum", "./mat"))
			um.Floor("uplo_tests", 60)
			um.Floor("cross_enum_triangle_constants", 2)
			res.Merge(um)
			fk := factkind.Run(def, "./lapack/gonum")
			fk.Floor("factorization_calls", 25)
			fk.Floor("paired_consumers", 20)
			res.Merge(fk)
			fb := worksize.RunFallback(def, core.Scope{Patterns: []string{"./lapack/gonum"}, Files: sc.Files})
			fb.Floor("fallbacks_verified", 3)
			res.Merge(fb)
			ws := worksize.Run(def, core.Scope{Patterns: []string{"./lapack/gonum"}, Files: sc.Files}, worksizeExempt)
			ws.Floor("routines_with_enforced_minimum", 8)
			ws.Floor("query_answers_proved_sufficient", 30)
			res.Merge(ws)
		},
	}
}

func init() {
	properties["C02"] = lapackProp("C02", "C03", "Does not decide backward stability, factor structure, blocked/unblocked agreement, or that the enforced minimum workspace is itself enough for the computation.")
	properties["C03"] = lapackProp("C03", "C02", "Does not decide orthogonality, residual identities, ordering of values or convergence.")
	properties["C07"] = &property{
		explanation: "Decides, for all 281 exported BLAS and LAPACK entry points and every path through their prologues: ARGS.order (no argument-check panic is reachable after an operand may have been written), ARGS.lencheck (every use of a slice parameter is preceded on every path by a branch on its length — the only thing between a short slice and an out-of-bounds kernel access), ARGS.complete (every int/flag/slice parameter occurs in an argument check; exceptions are a frozen table with reasons), ARGS.optional (an operand validated only under a flag is used only under it), ARGS.query; ARGS.arms (the positive- and negative-increment arms of a length check bound the same extent with the same strictness) and ARGS.strict (len(v) is compared with <= against a largest-index extent and with < against an element-count extent, so a slice one element short is rejected and an exactly-minimal one accepted; 603 comparisons); ARGS.fullrow (none of the 292 polynomial matrix extents is a pure multiple of the leading dimension, which would reject an exactly-minimal column-sliced view); WORKSIZE.querylen (no operand length panic is reachable in a workspace query, which the drivers issue with nil operands); MAT.order — in the 179 exported pointer-receiver methods of mat that validate shapes, none of the 297 shape/argument panics is reachable after the receiver was sized (reuseAs*) or written (zeroing stores are invalidation; element/status checks are data checks); TWIN.generated (the prologues of the untested float32/complex64 routines are the images of the tested ones) and TWIN.bounds (the bounds-checked and unchecked mat element accessors panic under the same conditions); STRIDE over BLAS, LAPACK and mat including STRIDE.len (a length check of operand p is written in p's own increment); ASM.window — in each of the 149 loops of the 56 assembly kernels every memory access through an induction register stays inside the bytes that iteration advances over (an over-wide load in a scalar tail is an out-of-bounds read on the last element); ASM.tail — outside the loops a block touches only the bytes it advances over, or one element in the final tail; ASM.units — a byte quantity is never scaled by SIZE again. Does NOT decide that the loop guards of the assembly leave enough elements, nor that each Go-level check uses the right extent polynomial.",
		assumptions: commonAssumptions,
		run: func(tier string, res *core.Result) {
			a := args.Run(def, core.Pkgs("./blas/gonum"), blasArgs)
			a.Floor("entry_points", 120)
			a.Floor("argument_checks", 800)
			a.Floor("slice_use_sites", 3000)
			res.Merge(a)
			l := args.Run(def, core.Pkgs("./lapack/gonum"), lapackArgs)
			l.Floor("entry_points", 120)
			l.Floor("argument_checks", 800)
			l.Floor("slice_use_sites", 3000)
			res.Merge(l)
			r := stride.Run(def, core.Pkgs(append(append([]string{"./mat"}, blasPkgs...), lapackPkgs...)...))
			r.Floor("index_sites", 6000)
			r.Floor("length_check_comparisons", 500)
			res.Merge(r)
			// the argument checks of the generated S/C routines are those of their D/Z sources
			t := twin.Run(twin.Which{Generated: true, Prefixes: []string{"blas/"}, Bounds: true, BoundsFamilies: []string{"mat-index"}})
			t.Floor("generated_file_pairs", 17)
			res.Merge(t)
			am := asmx.Run()
			am.Floor("assembly_files", 50)
			am.Floor("loops", 120)
			am.Floor("loop_memory_accesses", 450)
			am.Floor("tail_memory_accesses", 100)
			am.Floor("byte_scalings", 40)
			res.Merge(am)

			ce := worksize.RunCallee(def, core.Pkgs("./lapack/gonum", "./blas/gonum"))
			ce.Floor("delegations_compared", 400)
			res.Merge(ce)
			lc := flagx.RunLdCols(def, core.Pkgs("./lapack/gonum", "./blas/gonum"))
			lc.Floor("matrix_length_checks", 200)
			res.Merge(lc)
			lv := flagx.RunLenValue(def, core.Pkgs("./lapack/gonum", "./blas/gonum"))
			lv.Floor("lengths_of_slice_parameters", 400)
			res.Merge(lv)
			zl := matargs.RunZeroLen(def)
			zl.Floor("row_range_views", 2)
			res.Merge(zl)
			wq := flagx.RunWorkQuery(def, core.Pkgs("./lapack/gonum"))
			wq.Floor("work_length_checks_in_query_routines", 20)
			res.Merge(wq)
			cl := flagx.RunCondLen(def, core.Pkgs("./lapack/gonum", "./blas/gonum"))
			cl.Floor("operands_with_conditional_length_checks_only", 30)
			cl.Floor("uses_under_a_branch_on_the_guard_flags", 120)
			res.Merge(cl)
			ar := worksize.RunArms(def, core.Pkgs(append(append([]string{"./mat"}, blasPkgs...), lapackPkgs...)...))
			ar.Floor("two_arm_length_checks", 100)
			ar.Floor("strided_length_comparisons", 450)
			ar.Floor("matrix_extent_polynomials", 230)
			res.Merge(ar)
			ws := worksize.Run(def, core.Pkgs("./lapack/gonum"), worksizeExempt)
			ws.Floor("query_mode_prologues", 25)
			res.Merge(ws.Only("WORKSIZE.querylen"))

			res.Merge(matargs.RunAccess(def))
			ma := matargs.Run(def)
			ma.Floor("methods_with_checks", 140)
			ma.Floor("shape_checks", 240)
			res.Merge(ma)
			if tier == "thorough" {
				res.Merge(matargs.Run(core.Config{Tags: "bounds"}))
				res.Merge(args.Run(core.Config{Tags: "noasm"}, core.Pkgs("./blas/gonum"), blasArgs))
				res.Merge(args.Run(core.Config{GOARCH: "386"}, core.Pkgs("./lapack/gonum"), lapackArgs))
			}
		},
	}
	properties["C04"] = &property{
		explanation: "Decides structural necessary conditions of C04 for every function of mat: TWIN.sync — the receiver-sizing pairs reuseAsNonZeroed/reuseAsZeroed ('must be kept in sync') of six types differ only by use/useZeroed and the final Zero(); TWIN.bounds — the bounds and default element accessors check the same guards and address the same Data element on every access path; CONFIG — mat type-checks with one API under bounds/safe; STRIDE — every Data[...] index/slice and every (Data, Stride) pair handed to blas64/lapack64 uses the stride of the same matrix (views with Stride > Cols are addressed with their own stride everywhere). NILRECV — no call in mat passes a constant nil pointer to a function that dereferences it on every path (found and repaired: Cholesky.SymRankOne panicked for every Vector that is not a RawVectorer — a result depending on the operand's concrete type). Does not decide agreement of specialised dispatch arms with the generic At loop.",
		assumptions: commonAssumptions,
		run: func(tier string, res *core.Result) {
			ac := matargs.RunAccess(def)
			ac.Floor("index_access_checks", 60)
			res.Merge(ac)
			sg := matargs.RunSelfGuard(def)
			sg.Floor("receiver_identity_tests", 30)
			res.Merge(sg)
			zr := zeroed.Run(def)
			zr.Floor("return_paths", 16)
			res.Merge(zr)
			ue := zeroed.RunUseEmpty(def)
			ue.Floor("reuses_of_the_receivers_backing_slice", 7)
			res.Merge(ue)
			res.Merge(swapx.RunLogicDup(def, core.Pkgs("./mat")))
			rc := zeroed.RunResetCaps(def)
			rc.Floor("capacity_fields_of_resettable_types", 3)
			res.Merge(rc)
			sw := swapx.Run(def, core.Pkgs("./mat"))
			sw.Floor("swaps_guarded_by_a_comparison_of_two_variables", 2)
			res.Merge(sw)
			pu := paramuse.Run(def, core.Pkgs("./mat"))
			pu.Floor("parameters", 550)
			res.Merge(pu)
			r := stride.Run(def, core.Pkgs("./mat"))
			r.Floor("index_sites", 200)
			r.Floor("literal_pairs", 40)
			res.Merge(r)
			res.Merge(stride.RunStepBound(def, core.Pkgs("./mat")))
			wc := stride.RunWholeCopy(def, core.Pkgs("./mat"))
			wc.Floor("copies_out_of_a_raw_data_slice", 8)
			res.Merge(wc)
			res.Merge(loopidx.Run(def, core.Pkgs("./mat")))
			res.Merge(flagx.Run(def, core.Pkgs("./mat")))
			bc := flagx.RunBandCol(def, core.Pkgs("./mat", "./blas/gonum", "./lapack/gonum"))
			bc.Floor("band_row_extents_with_distinct_row_and_column_counts", 6)
			res.Merge(bc)
			nr := nilrecv.Run(def, core.Pkgs("./mat"))
			nr.Floor("pointer_args", 800)
			res.Merge(nr)
			t := twin.Run(twin.Which{Bounds: true, BoundsFamilies: []string{"mat-index"}, ReuseAs: true})
			t.Floor("bounds_guard_sequences", 15)
			t.Floor("reuseAs_sync_pairs", 5)
			res.Merge(t)
			cfgs := []core.Config{{}, {Tags: "bounds"}, {Tags: "safe"}}
			if tier == "thorough" {
				cfgs = append(cfgs, core.Config{Tags: "safe bounds"}, core.Config{GOARCH: "386"}, core.Config{GOARCH: "arm64"}, core.Config{Tags: "bounds", GOARCH: "386"})
			}
			res.Merge(config.Run(cfgs, []string{"./mat"}))
			if tier == "thorough" {
				res.Merge(stride.Run(core.Config{Tags: "bounds"}, core.Pkgs("./mat")))
				res.Merge(stride.Run(core.Config{Tags: "safe"}, core.Pkgs("./mat")))
			}
		},
	}
}

func init() {
	properties["C08"] = &property{
		explanation: "Decides the build-configuration clauses of C08 statically: CONFIG.build/.api — every package with tag- or arch-selected files (discovered by scanning //go:build lines; thorough: every package) loads and type-checks under {default, noasm, safe, bounds, tomita, debug} x {amd64, arm64, 386} and exports the same API in each, so the assembly, pure-Go and safe builds are interchangeable at the type level (the test suite compiles one configuration); TWIN.r3 — the safe and unsafe 3x3 builders of spatial/r3 (Eye, Skew, Mul, Rotation.Mat) store the identical expression to every element; STRIDE on the pure-Go kernels of internal/asm under default and noasm; PARAMUSE — every parameter of the kernels and of floats/cmplxs is read (a length or increment that is accepted but never consulted is the footprint of a loop bounded by len(x) instead of n). ASM.window/.units on the assembly text (per-iteration access windows; byte/element units of start offsets — found and repaired the amd64 Ger kernels' negative-increment handling, which made the default build disagree with noasm). SIB.guards — each float32/complex64 kernel with a Go body exits early (NaN, Inf, zero, empty) under the same conditions as its float64/complex128 sibling; STRIDE.extent on the kernels (start offset vs loop bound); ASM.tail. Does NOT decide that assembly or a noasm loop equals the scalar definition, nor search/ordering helpers, norms or NaN handling (value-level). CONSTFOLD.underflow — no constant floating-point subexpression with a non-zero exact value underflows to zero or to a subnormal when Go converts it to the type it is used at (the scaled accumulation of the 2-norm is written (x*c)*c so that the scaling constants are never multiplied together; reassociating them makes the term vanish silently).",
		assumptions: commonAssumptions,
		run: func(tier string, res *core.Result) {
			for _, c := range []core.Config{{}, {Tags: "noasm"}} {
				cf := constfold.Run(c, core.Pkgs("./internal/asm/...", "./floats/...", "./cmplxs/...", "./lapack/gonum", "./blas/gonum"))
				cf.Floor("constant_float_subexpressions", 20)
				res.Merge(cf)
			}
			pk, counts, err := config.TaggedPackages()
			if err != nil {
				res.Brokenf("scan: %v", err)
			}
			if len(pk) < 10 {
				res.Brokenf("only %d packages with tag-selected files found (%v), expected at least 10", len(pk), counts)
			}
			if tier == "thorough" {
				pk = []string{"./..."}
			}
			c := config.Run(config.Matrix(tier), pk)
			c.Floor("configurations", 8)
			c.Floor("package_api_comparisons", 80)
			res.Merge(c)
			t := twin.Run(twin.Which{R3: true})
			t.Floor("r3_elements_compared", 36)
			res.Merge(t)
			am := asmx.Run()
			am.Floor("assembly_files", 50)
			am.Floor("loops", 120)
			am.Floor("loop_memory_accesses", 450)
			am.Floor("tail_memory_accesses", 100)
			am.Floor("byte_scalings", 40)
			res.Merge(am)

			for _, c := range []core.Config{{}, {Tags: "noasm"}} {
				bk := flagx.RunBetaScale(c, core.Pkgs("./internal/asm/f64", "./internal/asm/f32"))
				bk.Floor("beta_scaling_sites", 8)
				res.Merge(bk)
			}
			sg := sibx.Run()
			sg.Floor("sibling_function_pairs", 35)
			sg.Floor("exit_guards", 15)
			res.Merge(sg)
			asm := []string{"./internal/asm/f64", "./internal/asm/f32", "./internal/asm/c128", "./internal/asm/c64"}
			ld := swapx.RunLogicDup(core.Config{Tags: "noasm"}, core.Pkgs(append([]string{"./floats/...", "./cmplxs/...", "./internal/math32", "./internal/cmplx64"}, asm...)...))
			ld.Floor("logical_connectives", 30)
			res.Merge(ld)
			for _, cfg := range []core.Config{{}, {Tags: "noasm"}} {
				r := stride.Run(cfg, core.Pkgs(asm...))
				res.Merge(r)
				res.Merge(stride.RunStepBound(cfg, core.Pkgs(asm...)))
				pu := paramuse.Run(cfg, core.Pkgs(append([]string{"./floats/...", "./cmplxs/...", "./internal/math32", "./internal/cmplx64"}, asm...)...))
				pu.Floor("parameters", 300)
				res.Merge(pu)
			}
		},
	}
}

func init() {
	properties["C06"] = &property{
		explanation: "Decides the 'reported through the ok/error result rather than a silently wrong answer' clause of C06 for every call site and return of mat and lapack64: OKFLOW.use — the ok/error/unconverged result of every non-query call to a LAPACK routine or to a mat factorization/solver reaches a branch, a field, a return or another call (def-use reachability on the CFG; explicit advisory discards are a frozen table); OKFLOW.report — no function returns a constant success on the path where a callee's status was false; OKFLOW.cond — all error-returning Solve*/Inverse* methods can return Condition, every finite Condition(x) is returned exactly under x > ConditionTolerance (the one tolerance object), Condition(+Inf) only under a failed status, and receivers that store a cond estimate report it. STRIDE on the factorization files (a strided right-hand side or update vector is addressed with its own increment; its Data is treated as contiguous only under a test of Inc). FACT.normorder — the norm handed to a LAPACK condition estimator is computed before the in-place factorization of the same storage (found and repaired: BandCholesky.Cond used the norm of the factor); FACT.state — Clone/Scale/SymRankOne/ExtendVecSym/RankOne, which rebuild the receiver from another value of the same type, assign every field (found and repaired: LU.RankOne into a fresh receiver left ok == false, so Det was 0 and SolveTo failed); FACTKIND.pair — mat.QR and mat.LQ hand their tau field only to the lapack64 routines of the family that filled it; OKFLOW.condpath — in the Solve*/Inverse* methods of the types that keep a cond estimate, every `return nil` is preceded on all paths by the comparison of that estimate with ConditionTolerance (a fast path for raw right-hand sides cannot skip it); FACT.condafter — where a function factorizes storage in place and estimates the condition number (lapack64 *con, or the receiver's updateCond), the estimate is reached only after the factorization, because the estimators work on the factors; FACT.condunit — the reciprocal condition number returned by the lapack64 *con estimators reaches a comparison with ConditionTolerance, a Condition(...) conversion or a cond field only through an odd number of inversions (found and repaired: TriDense.InverseTri and TriDense.SolveTo compared rcond itself with the tolerance and never reported an ill-conditioned matrix); NILRECV on the factorization files. Does NOT decide reconstruction identities, update formulas or the numerical consistency of Det/LogDet/Cond across factorizations.",
		assumptions: commonAssumptions,
		run: func(tier string, res *core.Result) {
			sn := flagx.RunSentinel(def, core.Scope{Patterns: []string{"./lapack/gonum"}, Files: func(rel string) bool { return rel == "lapack/gonum/dggsvp3.go" }})
			res.Merge(sn)
			r := okflow.Run(def, core.Pkgs("./mat", "./lapack/lapack64", "./lapack/gonum"))
			r.Floor("status_call_sites", 120)
			r.Floor("solver_methods", 18)
			r.Floor("condition_returns", 25)
			r.Floor("status_propagation_sites", 40)
			res.Merge(r)
			// factor updates must address strided operands with their own increment
			anch, err := core.PropertyAnchors("C06")
			if err != nil {
				res.Brokenf("%v", err)
			}
			st := stride.Run(def, core.Scope{Patterns: []string{"./mat"}, Files: func(rel string) bool { return anch[rel] }})
			st.Floor("index_sites", 60)
			res.Merge(st)
			fk := factkind.Run(def, "./mat")
			fk.Floor("field_consumers", 5)
			res.Merge(fk)
			fx := factx.Run(def)
			fx.Floor("condition_estimator_calls", 7)
			fx.Floor("condition_sinks", 9)
			fx.Floor("estimates_in_factorizing_functions", 6)
			fx.Floor("shape_invariants_of_factorization_types", 2)
			fx.Floor("loops_between_the_two_dimensions", 2)
			fx.Floor("field_resizes", 6)
			fx.Floor("factorize_failure_returns", 5)
			res.Merge(fx)
			im := initx.Run(def, "./mat")
			im.Floor("init_methods", 8)
			res.Merge(im)
			ex := errx.Run(def, core.Pkgs("./mat"))
			ex.Floor("error_definitions", 8)
			res.Merge(ex)
			us := flagx.RunUnset(def, core.Pkgs("./mat"))
			us.Floor("flag_variable_uses", 6)
			res.Merge(us)
			pu := paramuse.Run(def, core.Pkgs("./mat"))
			pu.Floor("parameters", 600)
			res.Merge(pu)
			nr := nilrecv.Run(def, core.Scope{Patterns: []string{"./mat"}, Files: func(rel string) bool { return anch[rel] }})
			nr.Floor("pointer_args", 200)
			res.Merge(nr)
			if tier == "thorough" {
				// the same rules under the configurations the suite never builds
				for _, c := range []core.Config{{Tags: "safe"}, {Tags: "noasm bounds"}, {GOARCH: "386"}} {
					res.Merge(okflow.Run(c, core.Pkgs("./mat", "./lapack/lapack64", "./lapack/gonum")))
				}
			}
		},
	}
}

func init() {
	properties["C05"] = &property{
		explanation: "Decides the 'never modify an operand that is not the receiver' clause of C05 by MODSET.mat — parameter write summaries of every function reachable from mat (SSA, level-sensitive points-to with escape summaries, VTA call graph, noasm bodies for the kernels): no exported function or method of mat may write through a matrix-typed parameter other than the receiver or a parameter named dst (187 parameters; accessor calls through the read-only Matrix interfaces are trusted not to write). It also decides the 'partial overlap panics instead of returning' mechanism of C05 for every exported pointer-receiver method of the overlap-aware mat types (Dense, VecDense, SymDense, TriDense, CDense and the band/diag/tridiag types; ...To(dst) methods use dst as destination): OVERLAP.guard — a forward must-analysis over each method's CFG proves that at every kernel write of the destination (blas64/lapack64/asm call, copy or Data store) every operand whose raw storage is read by that same statement has, on every path, passed a checkOverlap*/isolatedWorkspace guard, an identity test (recv == operand edge), the isolated-workspace edge (restore != nil), or delegation to a method that guards it; a failed type assertion makes the guard vacuous (no storage to compare). OVERLAP.iso — every isolatedWorkspace restore closure is deferred or called. OVERLAP.elemsize — in both the default and the safe build the address difference of two slices is divided by the size of exactly their element type. OVERLAP.symmetric — the two overlap predicates (checkOverlap, checkOverlapComplex) hand rectanglesOverlap only arguments that treat both operands alike, apart from the columns they swap explicitly (overlap is a symmetric relation; `a.Stride` for `min(a.Stride, b.Stride)` is reported); TWIN.shadow — checkOverlapComplex ('generate this file from shadow.go') is the image of checkOverlap. Copy/Clone methods (memmove semantics) are out of scope. Does NOT decide correctness of the modular arithmetic inside rectanglesOverlap and offset, Dense.Copy's direction choice, or generic At/set loops over operands of unknown type; user-defined Matrix implementations whose accessors write are outside MODSET's assumption. OVERLAP.extent — the storage offset returned by offset/offsetComplex is compared only with zero or with the storage length len(x.Data) of an operand, never with a logical element count, which ignores stride and increment; OVERLAP.lattice — and reduced by an increment only with the remainder operator (found and repaired: (*VecDense).checkOverlap used off&inc). MAT.doublepass — no loop that stores receiver elements from operand elements can fall through into a second top-level loop storing the same elements (found and repaired: DivElemVec's strided arm divided twice when the receiver was an operand).",
		assumptions: commonAssumptions,
		run: func(tier string, res *core.Result) {
			mg := matargs.Run(def).Only("MAT.guardorder")
			mg.Floor("overlap_guard_calls", 50)
			res.Merge(mg)
			fa := factx.Run(def).Only("FACT.alias")
			res.Merge(fa)
			r := overlap.Run(def)
			r.Floor("methods_with_operands_and_writes", 35)
			r.Floor("operand_write_obligations", 45)
			r.Floor("isolated_workspace_sites", 8)
			res.Merge(r)
			ms := modset.Run(core.Config{Tags: "noasm"})
			ms.Floor("mat_matrix_parameters", 150)
			ms.Floor("mat_dst_parameters_written", 30)
			ms.Floor("functions_summarised", 3000)
			res.Merge(ms.Only("MODSET.mat"))
			for _, c := range []core.Config{{}, {Tags: "safe"}} {
				es := overlap.RunElemSize(c)
				es.Floor("address_difference_divisions", 2)
				res.Merge(es)
			}
			res.Merge(overlap.RunSymmetric(def))
			ex := overlap.RunExtent(def)
			ex.Floor("offset_comparisons", 5)
			res.Merge(ex)
			ue := zeroed.RunUseEmpty(def)
			ue.Floor("reuses_of_the_receivers_backing_slice", 7)
			res.Merge(ue)
			dp := matargs.RunDoublePass(def)
			dp.Floor("ordered_pairs_of_element_passes", 8)
			res.Merge(dp)
			sh := twin.Run(twin.Which{Shadow: true})
			sh.Floor("shadow_twin_pairs", 1)
			res.Merge(sh)
			if tier == "thorough" {
				for _, c := range []core.Config{{Tags: "safe"}, {Tags: "bounds"}, {GOARCH: "386"}} {
					res.Merge(overlap.Run(c))
				}
			}
		},
	}
}

var concurrentPkgs = []string{"./blas/gonum", "./integrate/quad", "./diff/fd", "./optimize", "./mat", "./stat/distmat", "./stat/card", "./unit"}

func init() {
	properties["C09"] = &property{
		explanation: "Decides the synchronisation structure behind C09 at all 21 go statements of non-test code and for all pooled workspaces of mat: GOPROTO.capture — every variable of a spawning function that a goroutine assigns is written under a mutex that covers every other concurrent access, or by a single goroutine whose deferred WaitGroup.Done every other access Wait()s for on all paths; GOPROTO.wg — each WaitGroup.Add is matched by goroutines that defer Done, Add(n) equals the spawning loop's trip count (including gemm's blocks(m,bs)*blocks(n,bs) tiling), and Wait is present; GOPROTO.close — every ranged/quit channel is closed by exactly one site, reached on every exit when unconditional ('leaves no goroutines behind'); GOPROTO.lockpair — every Lock() is paired with its Unlock() in the same statement list; GOPROTO.once — a field initialised inside sync.Once.Do is never read around the Do call (double-checked locking) and other methods read it only after calling the initialiser; GOPROTO.sibling — serial and concurrent implementations dispatched from one call site read the same settings (found and repaired: OriginKnown ignored by three concurrent fd paths, one user-function call too many); POOL.once/.uaf/.escape — no pooled workspace is put twice on a path, used after its put, or retained in a field, package variable, goroutine or exported result; GLOBAL.write — in all 4 843 functions of the module, outside init, no package-level variable (or element/field of one) is written without a lock or sync.Once, except by the six documented process-wide setters (blas*/lapack64.Use, optimize.NewStatus): library calls issued from many goroutines share no unsynchronised mutable state of their own. Does NOT decide tile disjointness, bit-identical reduction order, callback counts in general, or races through aliased matrix views; nothing is executed and no race detector is used.",
		assumptions: commonAssumptions,
		run: func(tier string, res *core.Result) {
			g := goproto.Run(def, core.Pkgs(concurrentPkgs...))
			g.Floor("go_statements", 18)
			g.Floor("shared_writes_in_goroutines", 4)
			g.Floor("wait_groups", 8)
			g.Floor("channels_with_close_protocol", 10)
			g.Floor("serial_concurrent_sibling_pairs", 4)
			res.Merge(g)
			res.Merge(rawx.Run(def, core.Pkgs(concurrentPkgs...)))
			cb := settingsx.RunCallbackCopy(def, core.Pkgs("./diff/fd"))
			cb.Floor("slices_handed_to_the_user_function", 12)
			res.Merge(cb)
			la := goproto.RunLatch(def, core.Pkgs(concurrentPkgs...))
			la.Floor("close_once_latches", 1)
			res.Merge(la)
			lk := goproto.RunLocks(def, core.Pkgs(concurrentPkgs...))
			lk.Floor("lock_statements", 3)
			lk.Floor("once_do_sites", 1)
			res.Merge(lk)
			p := pool.Run(def)
			p.Floor("workspace_tokens", 60)
			p.Floor("put_sites", 60)
			res.Merge(p)
			gw := globalx.Run(def, core.Pkgs("./..."), globalWriters)
			gw.Floor("functions", 4000)
			gw.Floor("package_level_writes", 6)
			res.Merge(gw)
			if tier == "thorough" {
				res.Merge(globalx.Run(core.Config{Tags: "noasm safe"}, core.Pkgs("./..."), globalWriters))
				res.Merge(goproto.Run(def, core.Pkgs("./...")))
				res.Merge(pool.Run(core.Config{Tags: "safe"}))
				res.Merge(goproto.Run(core.Config{Tags: "noasm"}, core.Pkgs(concurrentPkgs...)))
			}
		},
	}
	properties["C19"] = &property{
		explanation: "Decides the termination-protocol clause of C19 ('Minimize terminates for every method ... and concurrency level') on the method side, for all 9 optimize Method.Run implementations through their helpers (localOptimizer.run/finish/finishMethodDone, summaries computed, not listed): GOPROTO.run — on every path to a normal exit the result channel is ranged to closure before close(operation) (the documented obligation 'closing of results happens before the closing of operations'), operation is closed on every path and never twice; GOPROTO.wg/.close/.capture on optimize.minimize's own goroutines. A new early return that skips the drain is the realistic way to hang Minimize and is invisible to tests that never take that path. INIT.state — in the 33 Init/InitDirection/initLocal methods of optimize, a receiver field assigned on some path is assigned on every returning path (lazy allocation under a test of the field itself excepted): no best value, counter or status of a previous Minimize run survives into the next ('the reported F is the objective value at the reported X'). OPT.limits — every comparison between a counter of optimize.Stats and a limit of optimize.Settings uses the same field name on both sides ('respect the configured limits … the status names the condition that stopped the run'). Does NOT decide counters, status coherence, convergence, line-search conditions or the simplex solver.",
		assumptions: commonAssumptions,
		run: func(tier string, res *core.Result) {
			r := goproto.RunProtocol(def)
			r.Floor("run_methods", 9)
			res.Merge(r)
			g := goproto.Run(def, core.Pkgs("./optimize"))
			g.Floor("go_statements", 3)
			res.Merge(g)
			si := flagx.RunSentinelIndex(def, core.Pkgs("./optimize/..."))
			si.Floor("fields_set_to_minus_one", 1)
			res.Merge(si)
			sd := errx.RunStatusDropped(def, core.Pkgs("./optimize/..."))
			sd.Floor("status_error_pairs_stored", 1)
			res.Merge(sd)
			ic := initx.RunComplete(def, "./optimize/...")
			ic.Floor("state_fields_written_while_running", 40)
			res.Merge(ic)
			la := goproto.RunLatch(def, core.Pkgs("./optimize/..."))
			la.Floor("close_once_latches", 1)
			res.Merge(la)
			ex := errx.Run(def, core.Pkgs("./optimize/..."))
			ex.Floor("error_definitions", 20)
			res.Merge(ex)
			sx := settingsx.Run(def, core.Pkgs("./optimize/..."))
			sx.Floor("settings_pointer_parameters", 2)
			res.Merge(sx)
			mp := initx.RunMaskPair(def, core.Pkgs("./optimize/..."))
			mp.Floor("mask_test_and_set_arms", 4)
			res.Merge(mp)
			al := aliasx.Run(def, core.Pkgs("./optimize/..."))
			al.Floor("state_slice_field_assignments", 15)
			res.Merge(al)
			lm := initx.RunLimits(def)
			lm.Floor("stats_settings_comparisons", 4)
			res.Merge(lm)
			in := initx.Run(def, "./optimize/...")
			in.Floor("init_methods", 30)
			in.Floor("state_fields", 120)
			res.Merge(in)
		},
	}
}

func init() {
	properties["C12"] = &property{
		explanation: "Decides the representation mechanisms behind C12 for the 8 map-backed graph types of graph/simple and graph/multi, uid.Set and the 30 iterator types of graph/iterator, in both the default and the safe build: GRAPHINV.converse — every adjacency mutation is translated into an effect (ADD/DEL/DELROW/DELCOL/PRUNE on from/to or edges/lines, through local aliases and map-literal arms; an untranslatable mutation fails the check as an unrecognised idiom) and each method's effect set is closed under the converse, so forward and reverse adjacency stay mirror images; GRAPHINV.remove — RemoveNode deletes the key, the row and the column of every relation and releases the ID; GRAPHINV.ids — a new node key is followed on all paths by Use, Release is preceded by the key's deletion, line insertions are followed by Use on the line pool; GRAPHINV.uid — in uid.Set every update of used executes together with the dual update of free ('fresh IDs never collide with live ones'); GRAPHINV.iter — every path of Next() that can return true advances a cursor field read by Len(); TWIN.sibstate — each iterator method and the corresponding method of its Weighted sibling type (all build configurations' files) make the same assignments to the cursor/length/current fields; CONFIG — graph/iterator, simple and multi type-check with one API under safe; GRAPHINV.panicorder — in the 22 container methods of graph/simple and graph/multi that panic explicitly, none of the 26 panics is reachable after a write to the receiver's state ('documented panics leave the graph unchanged'); GRAPHINV.absent — the dense-matrix graphs compare a weight with the absent marker only through the NaN-aware isSame, so From/To/HasEdge*/Edges agree for every absent value; GRAPHINV.iterreset — a value-receiver method that consumes the iterator held by its receiver resets it before returning. Does NOT decide the dense-matrix graphs' index arithmetic, iterator Reset implementations, panics raised inside callees, Undirect/Copy adapters.",
		assumptions: commonAssumptions,
		run: func(tier string, res *core.Result) {
			sw := swapx.Run(def, core.Pkgs("./graph/simple", "./graph/multi", "./graph/iterator", "./graph/set/uid"))
			sw.Floor("swaps_guarded_by_a_comparison_of_two_variables", 4)
			res.Merge(sw)
			res.Merge(swapx.RunLogicDup(def, core.Pkgs("./graph/simple", "./graph/multi", "./graph/iterator", "./graph/set/uid")))
			pu := paramuse.Run(def, core.Pkgs("./graph/simple", "./graph/multi", "./graph/iterator", "./graph/set/uid"))
			pu.Floor("parameters", 220)
			res.Merge(pu)
			for _, c := range []core.Config{{}, {Tags: "safe"}} {
				od := graphinv.RunOrder(c)
				od.Floor("explicit_panics", 20)
				od.Floor("isSame_absent_comparisons", 9)
				od.Floor("receiver_iterator_consumers", 1)
				res.Merge(od)
				mi := graphinv.RunMapInit(c, "./graph/simple", "./graph/multi")
				mi.Floor("inner_map_installations", 16)
				res.Merge(mi)
				ne := graphinv.RunNilEntry(c, "./graph/simple", "./graph/multi")
				ne.Floor("method_calls_on_map_entries", 4)
				res.Merge(ne)
				dg := graphinv.RunDiag(c)
				dg.Floor("matrix_stores_at_a_pair_of_node_ids", 2)
				res.Merge(dg)
				rf := graphinv.RunRangeFirst(c)
				rf.Floor("node_ids_used_as_indices", 14)
				res.Merge(rf)
				it := graphinv.RunIterFamily(c)
				it.Floor("iterator_results_related_to_idx", 10)
				res.Merge(it)
				rl := graphinv.RunRelit(c, "./graph/simple", "./graph/multi")
				rl.Floor("receiver_rebuilding_literals", 2)
				res.Merge(rl)
				ex := graphinv.RunExpose(c)
				ex.Floor("ordered_iterator_constructions", 30)
				res.Merge(ex)
			}
			for _, c := range []core.Config{{}, {Tags: "safe"}} {
				g := graphinv.Run(c)
				g.Floor("map_backed_graph_types", 8)
				g.Floor("adjacency_effects", 80)
				g.Floor("effects_paired_with_a_converse_site", 60)
				g.Floor("mutating_methods", 20)
				g.Floor("remove_node_methods", 8)
				g.Floor("uid_set_updates", 4)
				res.Merge(g)
				it := graphinv.RunIterators(c)
				it.Floor("iterator_types", 12)
				res.Merge(it)
			}
			sb := twin.Run(twin.Which{SiblingState: []string{"graph/iterator"}})
			sb.Floor("sibling_method_pairs", 30)
			sb.Floor("sibling_state_updates", 20)
			res.Merge(sb)
			cfgs := []core.Config{{}, {Tags: "safe"}}
			if tier == "thorough" {
				cfgs = append(cfgs, core.Config{GOARCH: "386"}, core.Config{Tags: "safe", GOARCH: "arm64"}, core.Config{Tags: "tomita"})
			}
			res.Merge(config.Run(cfgs, []string{"./graph/iterator", "./graph/simple", "./graph/multi", "./graph/set/uid", "./graph/internal/set", "./graph"}))
		},
	}
}

func init() {
	properties["C16"] = &property{
		explanation: "Decides the 'decoders are total ... never an internally inconsistent object' mechanisms of C16 for the binary decoders of mat, stat/card and mathext/prng and for graph6/digraph6: DECODE.mul — a product of two decoded integers is preceded on every path by a division-based overflow guard; DECODE.range — a decoded integer used as a shift count or allocation size is range-checked in an error-returning branch on every path before that use; DECODE.len — a variable-length field decoded into the receiver is length-checked before success is returned; DECODE.selfcmp — no compatibility comparison has two sides denoting the same expression ('merges only with compatible sketches'); DECODE.gate — every exported graph6/digraph6 accessor passes IsValid before touching raw bytes (helpers that index without a length test are found by a must-pass analysis, not listed); DECODE.clone — the clone methods of the RDF canonicalisation state give every slice/map field fresh storage (a shared `ordered` slice makes the canonical labelling depend on recursion order); DECODE.fields — every receiver field a Marshal* method writes out is stored by the matching Unmarshal* method (23 codec method pairs of mat, stat/card, mathext/prng, cytoscapejs, sigmajs, gexf12), so no decoded object keeps part of the receiver's previous state; TWIN.generated — hll64.go is the image of hll32.go. Found and repaired: rows*cols overflow in Dense.UnmarshalBinary[From], unvalidated p/register in HyperLogLog.UnmarshalBinary, the self-comparison in Union. Does NOT decide round-trip equality, the gocc/Ragel generated DOT and N-Quads parsers, or RDF canonicalisation. DECODE.errdrop — in the codec packages the error result of a same-package function is never discarded by a call statement or a blank assignment (found and repaired: the DOT printers dropped the error of their own recursive call, so a mismatched subgraph two levels down produced truncated output and a nil error). DECODE.order — in the 17 Unmarshal*/GobDecode methods none of the 32 returns of a validation error (package-level error variable, errors.New, fmt.Errorf) is reachable after the receiver was written or resized, so a rejected input leaves no half-built value behind (found and repaired: HyperLogLog.UnmarshalBinary decoded into its own fields before validating them).",
		assumptions: commonAssumptions,
		run: func(tier string, res *core.Result) {
			pu := paramuse.Run(def, core.Pkgs("./graph/encoding/...", "./stat/card", "./mathext/prng"))
			pu.Floor("parameters", 125)
			res.Merge(pu)
			codecFiles := func(rel string) bool { return !strings.HasPrefix(rel, "mat/") || rel == "mat/io.go" }
			ed := decode.RunErrDrop(def, core.Scope{Patterns: []string{"./graph/encoding/...", "./graph/formats/rdf", "./graph/formats/dot", "./stat/card", "./mathext/prng", "./mat"}, Files: codecFiles})
			ed.Floor("same_package_error_calls", 30)
			res.Merge(ed)
			do := decode.RunOrder(def, core.Scope{Patterns: []string{"./stat/card", "./mathext/prng", "./mat", "./graph/...", "./spatial/...", "./stat/..."}})
			do.Floor("decoder_methods_ordered", 12)
			do.Floor("validation_error_returns", 20)
			res.Merge(do)
			d := decode.Run(def, "./mat", "./stat/card", "./mathext/prng", "./graph/encoding/graph6", "./graph/encoding/digraph6")
			d.Floor("decoder_methods", 10)
			d.Floor("decoded_cells", 30)
			d.Floor("decoded_products", 2)
			d.Floor("decoded_shift_counts", 2)
			d.Floor("decoded_variable_length_fields", 2)
			d.Floor("graph6_exported_methods", 14)
			d.Floor("graph6_raw_accesses", 4)
			res.Merge(d)
			fs := decode.RunFields(def, "./mat", "./stat/card", "./mathext/prng", "./graph/formats/cytoscapejs", "./graph/formats/sigmajs", "./graph/formats/gexf12")
			fs.Floor("codec_method_pairs", 20)
			fs.Floor("codec_fields", 35)
			res.Merge(fs)
			ng := decode.RunNilGuard(def, core.Pkgs("./graph/formats/...", "./graph/encoding/...", "./stat/card", "./mathext/prng"))
			ng.Floor("exiting_nil_guards_of_fields", 6)
			res.Merge(ng)
			ex := errx.Run(def, core.Pkgs("./graph/formats/...", "./graph/encoding/...", "./stat/card", "./mathext/prng"))
			ex.Floor("error_definitions", 60)
			res.Merge(ex)
			sq := decode.RunSquare(def, "./graph/encoding/graph6", "./graph/encoding/digraph6")
			sq.Floor("products_of_the_decoded_node_count", 1)
			res.Merge(sq)
			rv := decode.RunRevive(def, core.Pkgs("./graph/formats/...", "./graph/encoding/...", "./stat/card", "./mathext/prng"))
			rv.Floor("fields_retired_with_nil", 1)
			res.Merge(rv)
			cl := decode.RunClone(def, "./graph/formats/rdf", "./stat/card", "./mat", "./mathext/prng")
			cl.Floor("clone_methods", 2)
			res.Merge(cl)
			t := twin.Run(twin.Which{Generated: true, Prefixes: []string{"stat/card/"}})
			t.Floor("generated_file_pairs", 1)
			t.Floor("twin_declaration_pairs", 10)
			res.Merge(t)
			if tier == "thorough" {
				res.Merge(decode.Run(core.Config{Tags: "safe"}, "./mat", "./stat/card"))
				res.Merge(decode.Run(core.Config{GOARCH: "386"}, "./mat", "./stat/card", "./mathext/prng", "./graph/encoding/graph6", "./graph/encoding/digraph6"))
			}
		},
	}
	properties["C17"] = &property{
		explanation: "Decides the structural clauses of C17: RESET.fields — in Reset(n) of FFT, CmplxFFT, DCT, DST and QuarterWaveFFT every struct field is reassigned or handed to the fftpack initialiser on every path and workspaces are resliced to lengths depending on n alone ('the same answer regardless of what lengths it was previously Reset with'); WINDOW.pointwise — every window function of dsp/window stores to seq[J] a value that reads no element other than seq[J]; WINDOW.sibling — the weight expression of each real window and of its Complex sibling are identical after inlining locals and constants (14 pairs); TWIN.bounds — the bounds-checked and unchecked fftpack array accessors have identical bodies once guards are set aside. Found and repaired: Tukey.TransformComplex mirrored the left taper into the right. Does NOT decide the butterflies, twiddle factors, scaling, dst/src aliasing or closed-form window values (value-level). RESET.noleak — none of the 11 slice-returning exported methods of the dsp/fourier and dsp/transform types returns a slice that shares storage with a field of the receiver (directly or through a local assigned from one), so a result the caller keeps cannot be rewritten by the next call on the same transform object.",
		assumptions: commonAssumptions,
		run: func(tier string, res *core.Result) {
			na := dspx.RunNoAlias(def)
			na.Floor("slice_returning_methods", 9)
			res.Merge(na)
			gs := globalx.RunDecls(def, core.Pkgs("./dsp/fourier/...", "./dsp/transform", "./dsp/window"), nil)
			gs.Floor("packages", 4)
			res.Merge(gs)
			cp := swapx.Run(def, core.Pkgs("./dsp/..."))
			cp.Floor("complex_constructions", 20)
			res.Merge(cp)
			pu := paramuse.Run(def, core.Pkgs("./dsp/..."))
			pu.Floor("parameters", 270)
			res.Merge(pu)
			gw := globalx.Run(def, core.Pkgs("./dsp/..."), globalx.Options{})
			gw.Floor("functions", 110)
			res.Merge(gw)
			r := dspx.RunReset(def)
			r.Floor("reset_methods", 5)
			r.Floor("fields_checked", 10)
			res.Merge(r)
			w := dspx.RunWindow(def)
			w.Floor("window_functions", 28)
			w.Floor("window_element_stores", 28)
			w.Floor("window_sibling_pairs", 13)
			res.Merge(w)
			t := twin.Run(twin.Which{Bounds: true, BoundsFamilies: []string{"fftpack-array"}})
			t.Floor("bounds_twin_function_pairs", 10)
			res.Merge(t)
			cfgs := []core.Config{{}, {Tags: "bounds"}}
			if tier == "thorough" {
				cfgs = append(cfgs, core.Config{Tags: "bounds", GOARCH: "386"}, core.Config{GOARCH: "arm64"})
			}
			res.Merge(config.Run(cfgs, []string{"./dsp/..."}))
		},
	}
	properties["C18"] = &property{
		explanation: "Decides the table-level clauses of C18 by exact evaluation of literals in the source (no gonum code runs): CONST.stencil — each of the six predefined finite-difference formulas satisfies the moment conditions sum c_i*loc_i^k = k!*[k==Derivative] for all k below its point count, in exact rationals ('each formula differentiates polynomials up to its order exactly'); CONST.legendre — for every tabulated n < 101: rows have exactly the shape tabulated() indexes, each node is a root of P_n to 1e-19 (320-bit arithmetic), each weight equals 2/((1-x^2)P_n'(x)^2) to 1e-19, is positive, and the weights sum to 2; CONST.hermite — 200 rows with n entries, symmetric increasing nodes, positive weights summing to sqrt(pi); GOPROTO.sibling on diff/fd (OriginKnown honoured by serial and concurrent paths alike). Found and repaired: the n=26 Legendre weight row. Does NOT decide the Bogaert asymptotic branch (n > 100), Simpson/Romberg weights, interpolants or dual-number algebra.",
		assumptions: commonAssumptions,
		run: func(tier string, res *core.Result) {
			sw := swapx.Run(def, core.Pkgs("./diff/fd", "./num/...", "./integrate/...", "./interp"))
			sw.Floor("swaps_guarded_by_a_comparison_of_two_variables", 2)
			res.Merge(sw)
			pu := paramuse.Run(def, core.Pkgs("./diff/fd", "./num/...", "./integrate/...", "./interp"))
			pu.Floor("parameters", 290)
			res.Merge(pu)
			c := constx.Run(def)
			c.Floor("stencil_formulas", 6)
			c.Floor("stencil_moment_conditions", 14)
			c.Floor("legendre_rows", 99)
			c.Floor("legendre_nodes_checked", 2500)
			c.Floor("hermite_rows", 200)
			res.Merge(c)
			res.Merge(rawx.Run(def, core.Pkgs("./diff/fd", "./integrate/...", "./interp", "./num/...")))
			ex := errx.Run(def, core.Pkgs("./interp", "./integrate/...", "./diff/fd", "./num/..."))
			res.Merge(ex)
			st := settingsx.Run(def, core.Pkgs("./diff/fd"))
			st.Floor("settings_pointer_parameters", 4)
			res.Merge(st)
			cb := settingsx.RunCallbackCopy(def, core.Pkgs("./diff/fd"))
			cb.Floor("slices_handed_to_the_user_function", 12)
			res.Merge(cb)
			g := goproto.Run(def, core.Pkgs("./diff/fd", "./integrate/quad"))
			g.Floor("serial_concurrent_sibling_pairs", 4)
			res.Merge(g)
		},
	}
}

func dump(argv []string) {
	if len(argv) == 0 {
		return
	}
	var res *core.Result
	switch argv[0] {
	case "stride":
		res = stride.Run(def, core.Pkgs(argv[1:]...))
	case "config":
		pk, _, _ := config.TaggedPackages()
		fmt.Println(pk)
		tier := "quick"
		if len(argv) > 1 {
			tier = argv[1]
		}
		if tier == "thorough" {
			pk = []string{"./..."}
		}
		res = config.Run(config.Matrix(tier), pk)
	case "graphrelit":
		res = graphinv.RunRelit(def, argv[1:]...)
	case "graphmapinit":
		res = graphinv.RunMapInit(def, argv[1:]...)
	case "graphexpose":
		res = graphinv.RunExpose(def)
	case "graphorder":
		res = graphinv.RunOrder(def)
	case "factkind":
		res = factkind.Run(def, argv[1:]...)
	case "uplomap":
		res = flagx.RunUploMap(def, core.Pkgs(argv[1:]...))
	case "neginc":
		res = flagx.RunNegInc(def, core.Pkgs(argv[1:]...))
	case "betazero":
		res = flagx.RunBetaZero(def, core.Pkgs(argv[1:]...))
	case "unitdiag":
		res = flagx.RunUnitDiag(def, core.Pkgs(argv[1:]...))
	case "swap":
		res = swapx.Run(def, core.Pkgs(argv[1:]...))
	case "raw":
		res = rawx.Run(def, core.Pkgs(argv[1:]...))
	case "alias":
		res = aliasx.Run(def, core.Pkgs(argv[1:]...))
	case "unset":
		res = flagx.RunUnset(def, core.Pkgs(argv[1:]...))
	case "zeroed":
		res = zeroed.Run(def)
	case "condlen":
		res = flagx.RunCondLen(def, core.Pkgs(argv[1:]...))
	case "ldcols":
		res = flagx.RunLdCols(def, core.Pkgs(argv[1:]...))
	case "callee":
		res = worksize.RunCallee(def, core.Pkgs(argv[1:]...))
	case "revive":
		res = decode.RunRevive(def, core.Pkgs(argv[1:]...))
	case "maskpair":
		res = initx.RunMaskPair(def, core.Pkgs(argv[1:]...))
	case "selfguard":
		res = matargs.RunSelfGuard(def)
	case "cholorder":
		res = flagx.RunCholOrder(def, core.Pkgs(argv[1:]...))
	case "alphazero":
		res = flagx.RunAlphaZero(def, core.Pkgs(argv[1:]...))
	case "workinit":
		res = flagx.RunWorkInit(def, core.Pkgs(argv[1:]...))
	case "settings":
		res = settingsx.Run(def, core.Pkgs(argv[1:]...))
	case "errx":
		res = errx.Run(def, core.Pkgs(argv[1:]...))
	case "latch":
		res = goproto.RunLatch(def, core.Pkgs(argv[1:]...))
	case "initcomplete":
		res = initx.RunComplete(def, argv[1:]...)
	case "mataccess":
		res = matargs.RunAccess(def)
	case "globalstate":
		res = globalx.RunDecls(def, core.Pkgs(argv[1:]...), nil)
	case "nilguard":
		res = decode.RunNilGuard(def, core.Pkgs(argv[1:]...))
	case "extent":
		res = overlap.RunExtent(def)
	case "doublepass":
		res = matargs.RunDoublePass(def)
	case "bandcol":
		res = flagx.RunBandCol(def, core.Pkgs(argv[1:]...))
	case "stepbound":
		res = stride.RunStepBound(def, core.Pkgs(argv[1:]...))
	case "nilentry":
		res = graphinv.RunNilEntry(def, argv[1:]...)
	case "graphdiag":
		res = graphinv.RunDiag(def)
	case "rangefirst":
		res = graphinv.RunRangeFirst(def)
	case "iterfamily":
		res = graphinv.RunIterFamily(def)
	case "argmaxbase":
		res = stride.RunArgmaxBase(def, core.Pkgs(argv[1:]...))
	case "staleflag":
		res = loopidx.RunStaleFlag(def, core.Pkgs(argv[1:]...))
	case "sentinel":
		res = flagx.RunSentinel(def, core.Pkgs(argv[1:]...))
	case "statusdrop":
		res = errx.RunStatusDropped(def, core.Pkgs(argv[1:]...))
	case "callbackcopy":
		res = settingsx.RunCallbackCopy(def, core.Pkgs(argv[1:]...))
	case "useempty":
		res = zeroed.RunUseEmpty(def)
	case "lenvalue":
		res = flagx.RunLenValue(def, core.Pkgs(argv[1:]...))
	case "contskip":
		res = loopidx.RunContinueSkip(def, core.Pkgs(argv[1:]...))
	case "sentinelidx":
		res = flagx.RunSentinelIndex(def, core.Pkgs(argv[1:]...))
	case "decodesquare":
		res = decode.RunSquare(def, argv[1:]...)
	case "retoffset":
		res = flagx.RunRetOffset(def, core.Pkgs(argv[1:]...))
	case "wholecopy":
		res = stride.RunWholeCopy(def, core.Pkgs(argv[1:]...))
	case "resetcaps":
		res = zeroed.RunResetCaps(def)
	case "zerolen":
		res = matargs.RunZeroLen(def)
	case "logicdup":
		res = swapx.RunLogicDup(def, core.Pkgs(argv[1:]...))
	case "quickrhs":
		res = flagx.RunQuickRHS(def, core.Pkgs(argv[1:]...))
	case "workquery":
		res = flagx.RunWorkQuery(def, core.Pkgs(argv[1:]...))
	case "betascale":
		res = flagx.RunBetaScale(def, core.Pkgs(argv[1:]...))
	case "guardop":
		res = flagx.RunGuardOperand(def, core.Pkgs(argv[1:]...))
	case "decodeorder":
		res = decode.RunOrder(def, core.Pkgs(argv[1:]...))
	case "errdrop":
		res = decode.RunErrDrop(def, core.Pkgs(argv[1:]...))
	case "idindex":
		res = idindex.Run(def, core.Pkgs(argv[1:]...))
	case "constfold":
		res = constfold.Run(def, core.Pkgs(argv[1:]...))
	case "noalias":
		res = dspx.RunNoAlias(def)
	case "global":
		res = globalx.Run(def, core.Pkgs(argv[1:]...), globalx.Options{})
	case "fallback":
		res = worksize.RunFallback(def, core.Pkgs(argv[1:]...))
	case "arms":
		res = worksize.RunArms(def, core.Pkgs(argv[1:]...))
	case "worksize":
		res = worksize.Run(def, core.Pkgs(argv[1:]...), nil)
	case "okflow":
		res = okflow.Run(def, core.Pkgs(argv[1:]...))
	case "overlap":
		res = overlap.Run(def)
	case "pool":
		res = pool.Run(def)
	case "loopidx":
		res = loopidx.Run(def, core.Pkgs(argv[1:]...))
	case "goproto":
		res = goproto.Run(def, core.Pkgs(argv[1:]...))
	case "goprotolocks":
		res = goproto.RunLocks(def, core.Pkgs(argv[1:]...))
	case "goprotorun":
		res = goproto.RunProtocol(def)
	case "graphinv":
		res = graphinv.Run(def)
		res.Merge(graphinv.RunIterators(def))
		res.Merge(graphinv.RunIterators(core.Config{Tags: "safe"}))
	case "decode":
		res = decode.Run(def, argv[1:]...)
	case "const":
		res = constx.Run(def)
	case "dspx":
		res = dspx.RunReset(def)
		res.Merge(dspx.RunWindow(def))
	case "symmetric":
		res = overlap.RunSymmetric(def)
	case "elemsize":
		res = overlap.RunElemSize(def)
		res.Merge(overlap.RunElemSize(core.Config{Tags: "safe"}))
		res.Merge(overlap.RunExtent(def))
	case "paramuse":
		res = paramuse.Run(def, core.Pkgs(argv[1:]...))
		res.Merge(paramuse.Run(core.Config{Tags: "noasm"}, core.Pkgs(argv[1:]...)))
	case "sib":
		res = sibx.Run()
	case "init":
		res = initx.Run(def, argv[1:]...)
	case "fields":
		res = decode.RunFields(def, argv[1:]...)
	case "clone":
		res = decode.RunClone(def, argv[1:]...)
	case "modset":
		res = modset.Run(core.Config{Tags: "noasm"})
	case "asm":
		res = asmx.Run()
	case "flag":
		res = flagx.Run(def, core.Pkgs(argv[1:]...))
	case "fact":
		res = factx.Run(def)
	case "nilrecv":
		res = nilrecv.Run(def, core.Pkgs(argv[1:]...))
	case "matargs":
		res = matargs.Run(def)
	case "regen":
		res = twin.RunRegen()
	case "twin":
		res = twin.Run(twin.Which{Generated: true, Bounds: true, ReuseAs: true, R3: true, Shadow: true, Siblings: []string{"graph/iterator"}, SiblingState: []string{"graph/iterator"}})
	case "args":
		if argv[1] == "./lapack/gonum" {
			res = args.Run(def, core.Pkgs(argv[1:]...), lapackArgs)
		} else {
			res = args.Run(def, core.Pkgs(argv[1:]...), blasArgs)
		}
	}
	if res == nil {
		return
	}
	sort.Slice(res.Findings, func(i, j int) bool { return res.Findings[i].Key < res.Findings[j].Key })
	for _, f := range res.Findings {
		fmt.Printf("%s\t%s\t%s\n", f.Pos, f.Key, f.Msg)
		if len(f.Path) > 0 {
			fmt.Printf("\t%s\n", strings.Join(f.Path, "\n\t"))
		}
	}
	keys := []string{}
	for k := range res.Counts {
		keys = append(keys, k)
	}
	sort.Strings(keys)
	for _, k := range keys {
		fmt.Printf("count %s = %d\n", k, res.Counts[k])
	}
	fmt.Println("obligations", res.Obligations, "broken", res.Broken)
}
