package main

import (
	"fmt"
	"sort"
	"strings"

	"gverif/core"
	"gverif/engine/args"
	"gverif/engine/stride"
)

type property struct {
	run         func(tier string, res *core.Result)
	explanation string
	assumptions []string
}

var def = core.Config{}

var blasPkgs = []string{"./blas/gonum", "./blas/blas64", "./blas/blas32", "./blas/cblas128", "./blas/cblas64",
	"./internal/asm/f64", "./internal/asm/f32", "./internal/asm/c128", "./internal/asm/c64"}
var lapackPkgs = []string{"./lapack/gonum", "./lapack/lapack64"}

// lapackScope splits lapack/gonum between C02 and C03 by the properties'
// own anchor lists: a file anchored by the other property only is left to
// that property; shared auxiliaries (anchored by neither) belong to both.
func lapackScope(res *core.Result, self, other string) core.Scope {
	mine, err1 := core.PropertyAnchors(self)
	theirs, err2 := core.PropertyAnchors(other)
	if err1 != nil || err2 != nil {
		res.Brokenf("anchors: %v %v", err1, err2)
	}
	return core.Scope{Patterns: lapackPkgs, Files: func(rel string) bool {
		if mine[rel] {
			return true
		}
		return !theirs[rel]
	}}
}

var commonAssumptions = []string{
	"go/parser, go/types and golang.org/x/tools v0.29.0 (go/packages, go/cfg) are correct",
	"the rule tables and idiom lists frozen in /verif/gverif are the ones confirmed by reading the pinned tree (DESIGN.md §3)",
	"only the structural clauses named in the explanation are decided; value-level behaviour (arithmetic, rounding, orderings) is not",
}

var properties = map[string]*property{}

// Frozen exemption tables for ARGS on lapack/gonum, one reason per line,
// each confirmed by reading the routine. A stale entry fails the check.
var lapackArgs = args.Options{
	RecvType: "Implementation",
	Unchecked: map[string]string{
		"Dlasy2": "doc comment: 'isgn must be 1 or -1, and n1 and n2 must be 0, 1, or 2, but these conditions are not checked'; internal 2x2 Sylvester kernel with a TODO for optional validation",
	},
	CompleteExempt: map[string]string{
		"Dlacn2.kase":  "reverse-communication state variable, every value is a legal state",
		"Dlantb.diag":  "any value other than blas.Unit means non-unit (as in the reference, LSAME)",
		"Dlaset.uplo":  "any value other than Upper/Lower means the full matrix (documented)",
		"Dlascl.kl":    "only meaningful for band kinds, which panic 'not implemented'",
		"Dlascl.ku":    "only meaningful for band kinds, which panic 'not implemented'",
		"Dlasq3.iter":  "in/out iteration counter of the dqds state",
		"Dlasq3.nDiv":  "in/out counter of the dqds state",
		"Dlasq3.nFail": "in/out counter of the dqds state",
		"Dlasq3.ttype": "in/out shift-type state",
		"Dlasq4.n0in":  "state of the dqds iteration carried between calls",
		"Dlasq4.ttype": "in/out shift-type state",
		"Dtgsja.k":     "block-structure output of Dggsvp3; the reference does not validate it either",
		"Dtgsja.l":     "block-structure output of Dggsvp3; the reference does not validate it either",
		"Ilaenv.n1":    "environment enquiry: problem dimension, every integer is legal (-1 = unused)",
		"Ilaenv.n2":    "environment enquiry: problem dimension, every integer is legal (-1 = unused)",
		"Ilaenv.n3":    "environment enquiry: problem dimension, every integer is legal (-1 = unused)",
		"Ilaenv.n4":    "environment enquiry: problem dimension, every integer is legal (-1 = unused)",
		"Iparmq.n":     "environment enquiry: every integer is legal",
		"Iparmq.ilo":   "environment enquiry: every integer is legal",
		"Iparmq.ihi":   "environment enquiry: every integer is legal",
		"Iparmq.lwork": "environment enquiry: unused by design (kept for signature compatibility)",
	},
	LenExempt: map[string]string{
		"Dlascl.a":         "length check and uses are guarded by the same switch on kind (correlated branches); other kinds panic before",
		"Dtrevc3.selected": "length check and uses are both guarded by howmny == lapack.EVSelected (correlated branches)",
	},
}
var blasArgs = args.Options{RecvType: "Implementation"}

func init() {
	properties["C01"] = &property{
		explanation: "Decides structural necessary conditions of C01 for all BLAS code paths: STRIDE — no operand of blas/gonum, the blas64/blas32/cblas* wrappers or the internal/asm Go kernels is indexed, sliced or forwarded with another operand's ld/inc/Stride (units inferred by flow-insensitive fixpoint over integer locals). Does not decide arithmetic correctness of the loop nests, rounding, or assembly semantics.",
		assumptions: commonAssumptions,
		run: func(tier string, res *core.Result) {
			r := stride.Run(def, core.Pkgs(blasPkgs...))
			r.Floor("index_sites", 3000)
			r.Floor("call_pairs", 200)
			r.Floor("unit_typed_locals", 400)
			res.Merge(r)
		},
	}
}

func lapackProp(self, other, what string) *property {
	return &property{
		explanation: "Decides structural necessary conditions of " + self + " on the lapack/gonum routines anchored by it (and shared auxiliaries), for every path and both workspace modes: ARGS.query — with lwork == -1 the only stores are to work[0] and the only calls are queries/scalar helpers ('a workspace query touches nothing else'); ARGS.order/.lencheck/.complete — arguments are validated before any operand write, every slice use is preceded by a branch on its length, every int/flag/slice parameter is validated; STRIDE — no operand is addressed with another operand's leading dimension, so results cannot depend on which matrix's ld was used. " + what,
		assumptions: commonAssumptions,
		run: func(tier string, res *core.Result) {
			sc := lapackScope(res, self, other)
			r := stride.Run(def, sc)
			r.Floor("index_sites", 800)
			r.Floor("call_pairs", 300)
			res.Merge(r)
			o := lapackArgs
			a := args.Run(def, core.Scope{Patterns: []string{"./lapack/gonum"}, Files: sc.Files}, o)
			a.Floor("entry_points", 50)
			a.Floor("argument_checks", 350)
			a.Floor("query_mode_effects", 10)
			res.Merge(a)
		},
	}
}

func init() {
	properties["C02"] = lapackProp("C02", "C03", "Does not decide backward stability, factor structure, blocked/unblocked agreement or sufficiency of the reported workspace size.")
	properties["C03"] = lapackProp("C03", "C02", "Does not decide orthogonality, residual identities, ordering of values or convergence.")
	properties["C07"] = &property{
		explanation: "Decides, for all 281 exported BLAS and LAPACK entry points and every path through their prologues: ARGS.order (no argument-check panic is reachable after an operand may have been written), ARGS.lencheck (every use of a slice parameter is preceded on every path by a branch on its length — the only thing between a short slice and an out-of-bounds kernel access), ARGS.complete (every int/flag/slice parameter occurs in an argument check; exceptions are a frozen table with reasons), ARGS.query, and STRIDE over BLAS, LAPACK and mat (valid arguments never fault because one operand was addressed with another's stride). Does not decide that the assembly kernels stay in bounds given correct lengths, nor that each check uses the right extent expression.",
		assumptions: commonAssumptions,
		run: func(tier string, res *core.Result) {
			a := args.Run(def, core.Pkgs("./blas/gonum"), blasArgs)
			a.Floor("entry_points", 120)
			a.Floor("argument_checks", 800)
			a.Floor("slice_use_sites", 3000)
			res.Merge(a)
			l := args.Run(def, core.Pkgs("./lapack/gonum"), lapackArgs)
			l.Floor("entry_points", 120)
			l.Floor("argument_checks", 800)
			l.Floor("slice_use_sites", 3000)
			res.Merge(l)
			r := stride.Run(def, core.Pkgs(append(append([]string{"./mat"}, blasPkgs...), lapackPkgs...)...))
			r.Floor("index_sites", 6000)
			res.Merge(r)
		},
	}
	properties["C04"] = &property{
		explanation: "Decides a structural necessary condition of C04 for every function of mat: STRIDE — every Data[...] index/slice and every (Data, Stride) pair handed to blas64/lapack64 uses the stride of the same matrix (views with Stride > Cols are addressed with their own stride everywhere). Does not decide agreement of specialised dispatch arms with the generic At loop.",
		assumptions: commonAssumptions,
		run: func(tier string, res *core.Result) {
			r := stride.Run(def, core.Pkgs("./mat"))
			r.Floor("index_sites", 200)
			r.Floor("literal_pairs", 40)
			res.Merge(r)
		},
	}
}

func dump(argv []string) {
	if len(argv) == 0 {
		return
	}
	var res *core.Result
	switch argv[0] {
	case "stride":
		res = stride.Run(def, core.Pkgs(argv[1:]...))
	case "args":
		if argv[1] == "./lapack/gonum" {
			res = args.Run(def, core.Pkgs(argv[1:]...), lapackArgs)
		} else {
			res = args.Run(def, core.Pkgs(argv[1:]...), blasArgs)
		}
	}
	if res == nil {
		return
	}
	sort.Slice(res.Findings, func(i, j int) bool { return res.Findings[i].Key < res.Findings[j].Key })
	for _, f := range res.Findings {
		fmt.Printf("%s\t%s\t%s\n", f.Pos, f.Key, f.Msg)
		if len(f.Path) > 0 {
			fmt.Printf("\t%s\n", strings.Join(f.Path, "\n\t"))
		}
	}
	keys := []string{}
	for k := range res.Counts {
		keys = append(keys, k)
	}
	sort.Strings(keys)
	for _, k := range keys {
		fmt.Printf("count %s = %d\n", k, res.Counts[k])
	}
	fmt.Println("obligations", res.Obligations, "broken", res.Broken)
}
