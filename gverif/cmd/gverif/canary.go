package main

import (
	"fmt"
	"strings"

	"gverif/core"
	"gverif/engine/aliasx"
	"gverif/engine/args"
	"gverif/engine/asmx"
	"gverif/engine/constfold"
	"gverif/engine/constx"
	"gverif/engine/decode"
	"gverif/engine/dspx"
	"gverif/engine/errx"
	"gverif/engine/factkind"
	"gverif/engine/factx"
	"gverif/engine/flagx"
	"gverif/engine/globalx"
	"gverif/engine/goproto"
	"gverif/engine/graphinv"
	"gverif/engine/initx"
	"gverif/engine/loopidx"
	"gverif/engine/matargs"
	"gverif/engine/modset"
	"gverif/engine/nilrecv"
	"gverif/engine/okflow"
	"gverif/engine/overlap"
	"gverif/engine/paramuse"
	"gverif/engine/pool"
	"gverif/engine/rawx"
	"gverif/engine/settingsx"
	"gverif/engine/sibx"
	"gverif/engine/stride"
	"gverif/engine/swapx"
	"gverif/engine/twin"
	"gverif/engine/worksize"
	"gverif/engine/zeroed"
)

// A canary is a one-line in-memory mutation of the analysed tree (a
// go/packages overlay; nothing is written to /repo) that a rule must
// report. It guards against a rule that silently stops firing. If the
// anchor text is no longer present (the code was refactored) the canary is
// skipped and recorded as such; if it applies and the rule stays silent the
// check is broken.
type canary struct {
	rule     string
	file     string
	old, new string
	run      func() *core.Result
}

var canaries = map[string][]canary{}

// propertyCanaries lists, per property, the rules whose canaries are run
// after the property's own analysis.
var propertyCanaries = map[string][]string{
	"C01": {"RET.offset", "LOOPIDX.continue", "ARGS.lenvalue", "STRIDE.stepbound", "STRIDE.flatfill", "ALPHA.noread", "STRIDE.fullrange", "STRIDE.unitidx", "FLAG.unitdiag", "BETA.noread", "BETA.quickret", "BETA.scaleguard", "FLAG.neginc", "STRIDE.index", "STRIDE.len", "STRIDE.start", "STRIDE.rowoffset", "STRIDE.extent", "FLAG.trans", "TWIN.generated", "ASM.units", "ASM.lost"},
	"C02": {"QUICKRET.rhs", "ARGS.lenvalue", "STRIDE.argmaxbase", "WORK.init", "FLAG.cholorder", "ARGS.callee", "FLAG.unset", "FLAG.unitdiag", "WORKSIZE.fallback", "OKFLOW.loopstatus", "FACTKIND.pair", "ARGS.order", "ARGS.lencheck", "ARGS.query", "LOOPIDX.unused", "OKFLOW.report", "STRIDE.vecinc", "WORKSIZE.min", "WORKSIZE.querylen"},
	"C03": {"LOOPFLAG.stale", "WORK.init", "FLAG.cholorder", "ARGS.callee", "FLAG.unset", "FLAG.unitdiag", "WORKSIZE.fallback", "GUARD.operand", "FLAG.uplomap", "STRIDE.veclda", "FACTKIND.pair", "LOOPIDX.origin", "ARGS.order", "ARGS.lencheck", "ARGS.query", "LOOPIDX.unused", "OKFLOW.report", "STRIDE.workld", "STRIDE.worknext", "WORKSIZE.min"},
	"C04": {"RESET.caps", "STRIDE.wholecopy", "USE.empty", "STRIDE.stepbound", "BAND.rowcol", "MAT.access", "MAT.selfguard", "ZEROED.paths", "SWAP.cond", "STRIDE.contig", "TWIN.bounds", "NILRECV"},
	"C05": {"USE.empty", "MAT.doublepass", "OVERLAP.lattice", "MAT.guardorder", "FACT.alias", "OVERLAP.extent", "OVERLAP.guard", "MODSET.mat", "OVERLAP.symmetric", "TWIN.shadow"},
	"C06": {"FACT.condpath", "FACT.alias", "FACT.failstate", "INIT.state", "ERR.overwrite", "ERR.swallow", "FACT.deadloop", "FACT.reuse", "FLAG.unset", "OKFLOW.condpath", "FACT.condafter", "FACTKIND.pair", "OKFLOW.use", "OKFLOW.cond", "OKFLOW.report", "FACT.normorder", "FACT.state", "FACT.condunit", "NILRECV"},
	"C07": {"MAT.zerolen", "ARGS.lenvalue", "MAT.access", "ARGS.callee", "ARGS.ldcols", "ARGS.workquery", "ARGS.condlen", "ARGS.arms", "ARGS.strict", "ARGS.fullrow", "WORKSIZE.querylen", "ARGS.order", "ARGS.lencheck", "ARGS.query", "MAT.order", "ASM.window", "ASM.tail", "STRIDE.len"},
	"C08": {"LOGIC.dup", "STRIDE.fullrange", "BETA.scaleguard", "CONSTFOLD.underflow", "ASM.lost", "PARAMUSE.read", "ASM.window", "ASM.tail", "ASM.units", "STRIDE.extent", "SIB.guards"},
	"C09": {"CALLBACK.owncopy", "GOPROTO.latch", "GOPROTO.lockexit", "RAW.stride", "GOPROTO.accumzero", "GOPROTO.semcap", "GOPROTO.scratch", "GLOBAL.write", "GOPROTO.capture", "GOPROTO.lockpair", "GOPROTO.sibling", "POOL.uaf"},
	"C12": {"ITER.remaining", "GRAPHINV.rangefirst", "GRAPHINV.diag", "GRAPHINV.nilentry", "GRAPHINV.mapinit", "GRAPHINV.relit", "GRAPHINV.together", "GRAPHINV.expose", "SWAP.cond", "GRAPHINV.prune", "TWIN.sibguard", "GRAPHINV.panicorder", "GRAPHINV.absent", "GRAPHINV.iterreset", "GRAPHINV.converse", "GRAPHINV.uid", "GRAPHINV.iter", "TWIN.sibstate"},
	"C16": {"DECODE.square", "NILGUARD.sibling", "ERR.overwrite", "ERR.swallow", "RESET.revive", "DECODE.order", "DECODE.errdrop", "DECODE.mul", "DECODE.selfcmp", "DECODE.clone", "DECODE.fields"},
	"C17": {"GLOBAL.state", "CMPLX.parts", "RESET.noleak", "GLOBAL.write", "RESET.fields", "WINDOW.pointwise"},
	"C18": {"CALLBACK.owncopy", "ERR.overwrite", "ERR.swallow", "SETTINGS.readonly", "RAW.stride", "SWAP.cond", "GOPROTO.accumzero", "CONST.stencil", "GOPROTO.sibling"},
	"C19": {"SENTINEL.index", "STATUS.dropped", "INIT.complete", "GOPROTO.latch", "ERR.overwrite", "ERR.swallow", "SETTINGS.readonly", "OPT.maskpair", "ALIAS.config", "OPT.limits", "GOPROTO.scratch", "GOPROTO.run", "INIT.state"},
}

func init() {
	blas := func() *core.Result { return stride.Run(def, core.Pkgs("./blas/gonum")) }
	lap := func() *core.Result { return stride.Run(def, core.Pkgs("./lapack/gonum")) }
	matS := func() *core.Result { return stride.Run(def, core.Pkgs("./mat")) }
	wsz := func() *core.Result { return worksize.Run(def, core.Pkgs("./lapack/gonum"), worksizeExempt) }
	all := []canary{
		{"ARGS.arms", "blas/gonum/level2float64.go", "(incY < 0 && len(y) <= (1-n)*incY)", "(incY < 0 && len(y) <= (1-n)*incX)", func() *core.Result { return worksize.RunArms(def, core.Pkgs("./blas/gonum")) }},
		{"ARGS.strict", "blas/gonum/dgemm.go", "len(c) < (m-1)*ldc+n", "len(c) <= (m-1)*ldc+n", func() *core.Result { return worksize.RunArms(def, core.Pkgs("./blas/gonum")) }},
		{"ARGS.strict", "lapack/gonum/dgetrf.go", "len(a) < (m-1)*lda+n", "len(a) <= (m-1)*lda+n", func() *core.Result { return worksize.RunArms(def, core.Pkgs("./lapack/gonum")) }},
		{"POOL.uaf", "mat/vector.go", "v.CopyVec(n)\n\t\tputVecDenseWorkspace(n)", "putVecDenseWorkspace(n)\n\t\tv.CopyVec(n)", func() *core.Result { return pool.Run(def) }},
		{"GLOBAL.write", "mat/pool.go", "\tw := *poolFloat64s[poolFor(uint(l))].Get().(*[]float64)\n\tw = w[:l]", "\tw := *poolFloat64s[poolFor(uint(l))].Get().(*[]float64)\n\tw = w[:l]\n\tpoolFloat64s[0].New = nil", func() *core.Result { return globalx.Run(def, core.Pkgs("./mat"), globalx.Options{}) }},
		{"GRAPHINV.panicorder", "graph/simple/directed.go", "g.nodes[n.ID()] = n\n\tg.nodeIDs.Use(n.ID())", "g.nodes[n.ID()] = n\n\tif n.ID() < 0 {\n\t\tpanic(\"simple: negative ID\")\n\t}\n\tg.nodeIDs.Use(n.ID())", func() *core.Result { return graphinv.RunOrder(def) }},
		{"GRAPHINV.absent", "graph/simple/dense_directed_matrix.go", "!isSame(g.mat.At(i, int(id)), g.absent)", "g.mat.At(i, int(id)) != g.absent", func() *core.Result { return graphinv.RunOrder(def) }},
		{"GRAPHINV.iterreset", "graph/multi/multi.go", "\te.WeightedLines.Reset()\n\treturn w", "\treturn w", func() *core.Result { return graphinv.RunOrder(def) }},
		{"FACTKIND.pair", "lapack/gonum/dggsvp3.go", "impl.Dormr2(blas.Right, blas.Trans, m, n, l, b, ldb, tau, a, lda, work)", "impl.Dorm2r(blas.Right, blas.Trans, m, n, l, b, ldb, tau, a, lda, work)", func() *core.Result { return factkind.Run(def, "./lapack/gonum") }},
		{"FACTKIND.pair", "mat/qr.go", "lapack64.Ormqr(blas.Right, blas.NoTrans, qr.qr.mat, qr.tau, c, work, len(work))", "lapack64.Ormlq(blas.Right, blas.NoTrans, qr.qr.mat, qr.tau, c, work, len(work))", func() *core.Result { return factkind.Run(def, "./mat") }},
		{"LOOPIDX.origin", "lapack/gonum/dggsvp3.go", "r := a[i*lda : i*lda+i]\n\t\tfor j := range r {\n\t\t\tr[j] = 0", "r := a[i*lda : i*lda+i]\n\t\tfor j := range r {\n\t\t\ta[j] = 0", func() *core.Result { return loopidx.Run(def, core.Pkgs("./lapack/gonum")) }},
		{"STRIDE.veclda", "lapack/gonum/dsteqr.go", "impl.Dlascl(lapack.General, 0, 0, anorm, ssfmax, lend-l+1, 1, d[l:], 1)", "impl.Dlascl(lapack.General, 0, 0, anorm, ssfmax, lend-l+1, 1, d[l:], n)", lap},
		{"OKFLOW.loopstatus", "lapack/gonum/dgetrf.go", "blockOk := impl.Dgetf2(m-j, jb, a[j*lda+j:], lda, ipiv[j:j+jb])\n\t\tif !blockOk {\n\t\t\tok = false\n\t\t}", "ok = impl.Dgetf2(m-j, jb, a[j*lda+j:], lda, ipiv[j:j+jb])", func() *core.Result { return okflow.Run(def, core.Pkgs("./lapack/gonum")) }},
		{"FLAG.uplomap", "lapack/gonum/dsyev.go", "kind = lapack.UpperTri", "kind = lapack.LowerTri", func() *core.Result { return flagx.RunUploMap(def, core.Pkgs("./lapack/gonum")) }},
		{"FLAG.neginc", "blas/gonum/level2float64.go", "Implementation{}.Dscal(lenY, beta, y, -incY)", "Implementation{}.Dscal(lenY, beta, y, incY)", func() *core.Result { return flagx.RunNegInc(def, core.Pkgs("./blas/gonum")) }},
		{"BETA.quickret", "blas/gonum/level3cmplx128.go", "if (alpha == 0 || k == 0) && beta == 1 {", "if alpha == 0 && beta == 1 || k == 0 {", func() *core.Result { return flagx.RunBetaZero(def, core.Pkgs("./blas/gonum")) }},
		{"BETA.scaleguard", "internal/asm/f32/gemv.go", "\tif beta == 0 {\n\t\tfor i = 0; i < m; i++ {\n\t\t\ty[iy] = alpha * DotInc(x, a[lda*i:lda*i+n], n, incX, 1, kx, 0)\n\t\t\tiy += incY\n\t\t}\n\t\treturn\n\t}\n", "", func() *core.Result { return flagx.RunBetaScale(def, core.Pkgs("./internal/asm/f32")) }},
		{"FLAG.unitdiag", "lapack/gonum/dtrtri.go", "\tif diag == blas.NonUnit {\n\t\tfor i := 0; i < n; i++ {\n\t\t\tif a[i*lda+i] == 0 {", "\t{\n\t\tfor i := 0; i < n; i++ {\n\t\t\tif a[i*lda+i] == 0 {", func() *core.Result { return flagx.RunUnitDiag(def, core.Pkgs("./lapack/gonum")) }},
		{"SWAP.cond", "num/quat/abs.go", "\tif r < j {\n\t\tr, j = j, r", "\tif i < j {\n\t\tr, j = j, r", func() *core.Result { return swapx.Run(def, core.Pkgs("./num/quat")) }},
		{"RAW.stride", "diff/fd/jacobian.go", "\tfor i := 0; i < m; i++ {\n\t\tfor j := 0; j < n; j++ {\n\t\t\tdst.Set(i, j, 0)\n\t\t}\n\t}\n", "\tfor i := range dst.RawMatrix().Data[:m*n] {\n\t\tdst.RawMatrix().Data[i] = 0\n\t}\n", func() *core.Result { return rawx.Run(def, core.Pkgs("./diff/fd")) }},
		{"ALIAS.config", "optimize/neldermead.go", "copy(n.values, n.InitialValues)", "n.values = n.InitialValues", func() *core.Result { return aliasx.Run(def, core.Pkgs("./optimize")) }},
		{"FACT.deadloop", "mat/qr.go", "\t// Zero below the triangular.\n\tfor i := c; i < r; i++ {", "\t// Zero below the triangular.\n\tfor i := r; i < c; i++ {", func() *core.Result { return factx.Run(def) }},
		{"FACT.reuse", "mat/lq.go", "\t\tlq.q.Reset()\n\t\tlq.q.reuseAsNonZeroed(n, n)", "\t\tlq.q.reuseAsNonZeroed(n, n)", func() *core.Result { return factx.Run(def) }},
		{"FLAG.unset", "mat/gsvd.go", "\t\tjobU = lapack.GSVDNone\n\t\tjobV = lapack.GSVDNone\n\t\tjobQ = lapack.GSVDNone\n\t\tif GSVDU&kind != 0 {", "\t\tif GSVDU&kind != 0 {", func() *core.Result { return flagx.RunUnset(def, core.Pkgs("./mat")) }},
		{"FLAG.unset", "lapack/gonum/dgeev.go", "\t} else if wantvr {\n\t\tside = lapack.EVRight", "\t} else if wantvr {", func() *core.Result { return flagx.RunUnset(def, core.Pkgs("./lapack/gonum")) }},
		{"STRIDE.unitidx", "blas/gonum/level2cmplx128.go", "\t// Here, kk points to the beginning of current row in ap.\n\tif incX == 1 && incY == 1 {\n\t\tfor i := 0; i < n; i++ {\n\t\t\tif x[i] != 0 || y[i] != 0 {\n\t\t\t\ttmp1 := alpha * x[i]", "\t// Here, kk points to the beginning of current row in ap.\n\tif incX == 1 {\n\t\tfor i := 0; i < n; i++ {\n\t\t\tif x[i] != 0 || y[i] != 0 {\n\t\t\t\ttmp1 := alpha * x[i]", func() *core.Result { return stride.Run(def, core.Pkgs("./blas/gonum")) }},
		{"ZEROED.paths", "mat/triband.go", "Data:   useZeroed(t.mat.Data, n*(k+1)),", "Data:   use(t.mat.Data, n*(k+1)),", func() *core.Result { return zeroed.Run(def) }},
		{"ARGS.condlen", "lapack/gonum/dlansy.go", "case (norm == lapack.MaxColumnSum || norm == lapack.MaxRowSum) && len(work) < n:", "case norm == lapack.MaxColumnSum && len(work) < n:", func() *core.Result { return flagx.RunCondLen(def, core.Pkgs("./lapack/gonum")) }},
		{"ARGS.ldcols", "lapack/gonum/dgesvd.go", "wantua && ldu < m", "wantua && ldu < minmn", func() *core.Result { return flagx.RunLdCols(def, core.Pkgs("./lapack/gonum")) }},
		{"MAT.doublepass", "mat/vector.go", "\t\t\t\tv.setVec(i, amat.Data[ia]*bmat.Data[ib])\n\t\t\t\tia += amat.Inc\n\t\t\t\tib += bmat.Inc\n\t\t\t}\n\t\t\treturn\n", "\t\t\t\tv.setVec(i, amat.Data[ia]*bmat.Data[ib])\n\t\t\t\tia += amat.Inc\n\t\t\t\tib += bmat.Inc\n\t\t\t}\n", func() *core.Result { return matargs.RunDoublePass(def) }},
		{"OVERLAP.lattice", "mat/shadow.go", "off%inc == 0", "off&inc == 0", func() *core.Result { return overlap.RunExtent(def) }},
		{"MAT.guardorder", "mat/dense_arithmetic.go", "\tr, c := x.Len(), y.Len()\n\n\tm.reuseAsNonZeroed(r, c)", "\tr, c := x.Len(), y.Len()\n\n\tm.reuseAsZeroed(r, c)", func() *core.Result { return matargs.Run(def) }},
		{"BAND.rowcol", "blas/gonum/level2float64.go", "\t\tfor i := 0; i < min(m, n+kL); i++ {\n\t\t\tl := max(0, kL-i)\n\t\t\tu := min(nCol, n+kL-i)\n\t\t\toff := max(0, i-kL)\n\t\t\tatmp := a[i*lda+l : i*lda+u]\n\t\t\tjx := kx", "\t\tfor i := 0; i < min(m, n+kL); i++ {\n\t\t\tl := max(0, kL-i)\n\t\t\tu := min(nCol, m+kL-i)\n\t\t\toff := max(0, i-kL)\n\t\t\tatmp := a[i*lda+l : i*lda+u]\n\t\t\tjx := kx", func() *core.Result { return flagx.RunBandCol(def, core.Pkgs("./blas/gonum")) }},
		{"STRIDE.stepbound", "blas/gonum/level1float64.go", "\t\tfor ix := 0; ix < n*incX; ix += incX {\n\t\t\tx[ix] = 0", "\t\tfor ix := 0; ix < n; ix += incX {\n\t\t\tx[ix] = 0", func() *core.Result { return stride.RunStepBound(def, core.Pkgs("./blas/gonum")) }},
		{"GRAPHINV.nilentry", "graph/multi/directed.go", "\tif g.lineIDs[fid][tid] != nil {\n\t\tg.lineIDs[fid][tid].Release(id)\n\t}", "\tg.lineIDs[fid][tid].Release(id)", func() *core.Result { return graphinv.RunNilEntry(def, "./graph/multi") }},
		{"GRAPHINV.diag", "graph/simple/dense_undirected_matrix.go", "\tif fid == tid {\n\t\tpanic(\"simple: set illegal edge\")\n\t}", "", func() *core.Result { return graphinv.RunDiag(def) }},
		{"GRAPHINV.rangefirst", "graph/simple/dense_directed_matrix.go", "\tg.mat.Set(int(fid), int(tid), weight)\n\tif g.nodes != nil {\n\t\tg.nodes[fid] = from\n\t\tg.nodes[tid] = to\n\t}\n", "\tif g.nodes != nil {\n\t\tg.nodes[fid] = from\n\t\tg.nodes[tid] = to\n\t}\n\tg.mat.Set(int(fid), int(tid), weight)\n", func() *core.Result { return graphinv.RunRangeFirst(def) }},
		{"ITER.remaining", "graph/iterator/nodes.go", "\treturn len(n.nodes[n.idx+1:])", "\treturn len(n.nodes[n.idx:])", func() *core.Result { return graphinv.RunIterFamily(def) }},
		{"STRIDE.argmaxbase", "lapack/gonum/dgetf2.go", "jp := j + bi.Idamax(m-j, a[j*lda+j:], lda)", "jp := j + bi.Idamax(m-j-1, a[(j+1)*lda+j:], lda)", func() *core.Result { return stride.RunArgmaxBase(def, core.Pkgs("./lapack/gonum")) }},
		{"LOOPFLAG.stale", "lapack/gonum/dsteqr.go", "\t\tvar iscale scaletype\n\x00\tfor {\n\t\tif l1 > n-1 {", "\x00\tvar iscale scaletype\n\tfor {\n\t\tif l1 > n-1 {", func() *core.Result { return loopidx.RunStaleFlag(def, core.Pkgs("./lapack/gonum")) }},
		{"STATUS.dropped", "optimize/local.go", "\tif status != NotTerminated {\n\t\t// The starting location already satisfies the gradient threshold.\n\t\tl.finishMethodDone(operation, result, task)\n\t\treturn status, nil\n\t}\n", "", func() *core.Result { return errx.RunStatusDropped(def, core.Pkgs("./optimize")) }},
		{"CALLBACK.owncopy", "diff/fd/gradient.go", "\t\tcopy(xcopy, x)\n\t\toriginValue = f(xcopy)", "\t\tcopy(xcopy, x)\n\t\toriginValue = f(x)", func() *core.Result { return settingsx.RunCallbackCopy(def, core.Pkgs("./diff/fd")) }},
		{"USE.empty", "mat/vector.go", "\tif v.IsEmpty() || (v.mat.Inc == 1 && n <= v.mat.N) {\n", "\tif v.IsEmpty() || n <= v.mat.N {\n", func() *core.Result { return zeroed.RunUseEmpty(def) }},
		{"ARGS.lenvalue", "lapack/gonum/dlange.go", "\t\tfor i := 0; i < m; i++ {\n\t\t\tscale, sum = impl.Dlassq(n, a[i*lda:], 1, scale, sum)\n\t\t}\n\t\treturn scale * math.Sqrt(sum)", "\t\tif lda == n {\n\t\t\tscale, sum = impl.Dlassq(len(a), a, 1, scale, sum)\n\t\t\treturn scale * math.Sqrt(sum)\n\t\t}\n\t\tfor i := 0; i < m; i++ {\n\t\t\tscale, sum = impl.Dlassq(n, a[i*lda:], 1, scale, sum)\n\t\t}\n\t\treturn scale * math.Sqrt(sum)", func() *core.Result { return flagx.RunLenValue(def, core.Pkgs("./lapack/gonum")) }},
		{"FACT.condpath", "mat/lu.go", "\t\tlu.lu.Copy(orig.lu)\n\t\tlu.ok = orig.ok\n\t}\n", "\t\tlu.lu.Copy(orig.lu)\n\t\tlu.ok = orig.ok\n\t}\n\tif alpha == 0 {\n\t\treturn\n\t}\n", func() *core.Result { return factx.Run(def) }},
		{"LOOPIDX.continue", "blas/gonum/level2float64.go", "\t\t\t\tatmp := ap[offset:]\n\t\t\t\txi := x[i]\n\t\t\t\tyi := y[i]\n\t\t\t\txtmp := x[i:n]", "\t\t\t\tatmp := ap[offset:]\n\t\t\t\txi := x[i]\n\t\t\t\tyi := y[i]\n\t\t\t\tif xi == 0 && yi == 0 {\n\t\t\t\t\tcontinue\n\t\t\t\t}\n\t\t\t\txtmp := x[i:n]", func() *core.Result { return loopidx.RunContinueSkip(def, core.Pkgs("./blas/gonum")) }},
		{"MAT.access", "mat/matrix.go", "\tif i < 0 || i >= r {\n\t\tpanic(ErrRowAccess)", "\tif i < 0 || i >= r {\n\t\tpanic(ErrColAccess)", func() *core.Result { return matargs.RunAccess(def) }},
		{"SENTINEL.index", "optimize/listsearch.go", "\tif l.bestIdx < 0 || task.F < l.bestF {", "\tif task.F < l.bestF {", func() *core.Result { return flagx.RunSentinelIndex(def, core.Pkgs("./optimize")) }},
		{"DECODE.square", "graph/encoding/digraph6/digraph6.go", "\tif n != 0 && n > maxInt/n {\n\t\t// n*n overflows; no data can be that long.\n\t\treturn false\n\t}\n", "\t_ = maxInt\n", func() *core.Result { return decode.RunSquare(def, "./graph/encoding/digraph6") }},
		{"RET.offset", "blas/gonum/level1float32_sdsdot.go", "\t\t\treturn alpha\n", "\t\t\treturn 0\n", func() *core.Result { return flagx.RunRetOffset(def, core.Pkgs("./blas/gonum")) }},
		{"STRIDE.wholecopy", "mat/dense.go", "copy(m.mat.Data, amat.Data[:n])", "copy(m.mat.Data, amat.Data)", func() *core.Result { return stride.RunWholeCopy(def, core.Pkgs("./mat")) }},
		{"RESET.caps", "mat/dense.go", "\tm.capRows, m.capCols = 0, 0\n", "", func() *core.Result { return zeroed.RunResetCaps(def) }},
		{"MAT.zerolen", "mat/symmetric.go", "if i < 0 || sz < i || k <= i || sz < k {", "if i < 0 || sz < i || k < i || sz < k {", func() *core.Result { return matargs.RunZeroLen(def) }},
		{"LOGIC.dup", "floats/floats.go", "!(math.IsNaN(v) && math.IsNaN(w))", "!(math.IsNaN(v) && math.IsNaN(v))", func() *core.Result { return swapx.RunLogicDup(def, core.Pkgs("./floats")) }},
		{"QUICKRET.rhs", "lapack/gonum/dgetrs.go", "\tif n == 0 || nrhs == 0 {\n\t\treturn\n\t}\n", "\tif n == 0 || nrhs == 0 {\n\t\treturn\n\t}\n\tipiv[0] = ipiv[0]\n", func() *core.Result { return flagx.RunQuickRHS(def, core.Pkgs("./lapack/gonum")) }},
		{"ARGS.workquery", "lapack/gonum/dgeqrf.go", "case len(work) < max(1, lwork):", "case len(work) < lwork:", func() *core.Result { return flagx.RunWorkQuery(def, core.Pkgs("./lapack/gonum")) }},
		{"ARGS.callee", "lapack/gonum/dsytrd.go", "case len(d) < n:", "case len(d) < n-1:", func() *core.Result { return worksize.RunCallee(def, core.Pkgs("./lapack/gonum")) }},
		{"GRAPHINV.together", "graph/simple/weighted_undirected.go", "\tif fm, ok := g.edges[fid]; ok {\n\t\tfm[tid] = e\n\t} else {", "\tif fm, ok := g.edges[fid]; ok {\n\t\t_, exists := fm[tid]\n\t\tfm[tid] = e\n\t\tif exists {\n\t\t\treturn\n\t\t}\n\t} else {", func() *core.Result { return graphinv.Run(def) }},
		{"GRAPHINV.expose", "graph/simple/dense_directed_matrix.go", "\t\tnodes := make([]graph.Node, len(g.nodes))\n\t\tcopy(nodes, g.nodes)\n\t\treturn iterator.NewOrderedNodes(nodes)", "\t\tnodes := g.nodes[:len(g.nodes)]\n\t\treturn iterator.NewOrderedNodes(nodes)", func() *core.Result { return graphinv.RunExpose(def) }},
		{"RESET.revive", "graph/formats/rdf/rdf.go", "\tdec.strings = make(store)\n\tif dec.ids == nil {\n", "\tif dec.ids == nil {\n\t\tdec.strings = make(store)\n", func() *core.Result { return decode.RunRevive(def, core.Pkgs("./graph/formats/rdf")) }},
		{"OPT.maskpair", "optimize/local.go", "if needs.Hessian && op&HessEvaluation == 0 {", "if needs.Hessian && op&GradEvaluation == 0 {", func() *core.Result { return initx.RunMaskPair(def, core.Pkgs("./optimize")) }},
		{"MAT.selfguard", "mat/vector.go", "\tif v == a {\n\t\treturn\n\t}\n\tn := a.Len()\n\tif v.IsEmpty() ||\x00\tif r, ok := a.(RawVectorer); ok {\n\t\tblas64.Copy(r.RawVector(), v.mat)", "\tn := a.Len()\n\tif v.IsEmpty() ||\x00\tif v == a {\n\t\treturn\n\t}\n\tif r, ok := a.(RawVectorer); ok {\n\t\tblas64.Copy(r.RawVector(), v.mat)", func() *core.Result { return matargs.RunSelfGuard(def) }},
		{"CMPLX.parts", "dsp/window/window_complex.go", "w := a0 - a1*math.Cos(x) + a2*math.Cos(2*x) - a3*math.Cos(3*x)\n\t\tseq[i] = complex(w*real(v), w*imag(v))", "w := a0 - a1*math.Cos(x) + a2*math.Cos(2*x) - a3*math.Cos(3*x)\n\t\tseq[i] = complex(w*real(v), w*real(v))", func() *core.Result { return swapx.Run(def, core.Pkgs("./dsp/window")) }},
		{"FLAG.cholorder", "lapack/gonum/dpotrs.go", "bi.Dtrsm(blas.Left, blas.Lower, blas.NoTrans, blas.NonUnit, n, nrhs, 1, a, lda, b, ldb)", "bi.Dtrsm(blas.Left, blas.Lower, blas.Trans, blas.NonUnit, n, nrhs, 1, a, lda, b, ldb)\n\t\tbi.Dtrsm(blas.Left, blas.Lower, blas.NoTrans, blas.NonUnit, n, nrhs, 1, a, lda, b, ldb)\n\t\tif false {\n\t\t}", func() *core.Result { return flagx.RunCholOrder(def, core.Pkgs("./lapack/gonum")) }},
		{"ALPHA.noread", "blas/gonum/dgemm.go", "\tif alpha == 0 {\n\t\t// A and B are not referenced.\n\t\treturn\n\t}\n", "", func() *core.Result { return flagx.RunAlphaZero(def, core.Pkgs("./blas/gonum")) }},
		{"STRIDE.fullrange", "internal/asm/f32/gemv.go", "for i := range y[:n] {", "for i := range y {", func() *core.Result { return stride.Run(def, core.Pkgs("./internal/asm/f32")) }},
		{"STRIDE.flatfill", "blas/gonum/level3float64.go", "\tif alpha == 0 {\n\t\tfor i := 0; i < m; i++ {\n\t\t\tbtmp := b[i*ldb : i*ldb+n]\n\t\t\tfor j := range btmp {\n\t\t\t\tbtmp[j] = 0\n\t\t\t}\n\t\t}\n\t\treturn\n\t}\n\n\tnonUnit := d == blas.NonUnit", "\tif alpha == 0 {\n\t\tfor i := range b[:ldb*(m-1)+n] {\n\t\t\tb[i] = 0\n\t\t}\n\t\treturn\n\t}\n\n\tnonUnit := d == blas.NonUnit", func() *core.Result { return stride.Run(def, core.Pkgs("./blas/gonum")) }},
		{"WORK.init", "lapack/gonum/dlange.go", "\t\tfor i := 0; i < n; i++ {\n\t\t\twork[i] = 0\n\t\t}\n\t\tfor i := 0; i < m; i++ {", "\t\tfor i := 0; i < m; i++ {", func() *core.Result { return flagx.RunWorkInit(def, core.Pkgs("./lapack/gonum")) }},
		{"SETTINGS.readonly", "diff/fd/hessian.go", "\t\t\tstep = settings.Step\n", "\t\t\tstep = settings.Step\n\t\t\tsettings.Step = step\n", func() *core.Result { return settingsx.Run(def, core.Pkgs("./diff/fd")) }},
		{"GOPROTO.lockexit", "unit/unittype.go", "\tdefer mu.Unlock()\n\tmu.Lock()\n\t_, ok := dimensions[symbol]\n\tif ok {\n\t\tpanic(\"unit: dimension string \\\"\" + symbol + \"\\\" already used\")\n\t}\n\td := Dimension(len(symbols))\n\tsymbols = append(symbols, symbol)\n\tdimensions[symbol] = d\n\treturn d", "\tmu.Lock()\n\t_, ok := dimensions[symbol]\n\tif ok {\n\t\tpanic(\"unit: dimension string \\\"\" + symbol + \"\\\" already used\")\n\t}\n\td := Dimension(len(symbols))\n\tsymbols = append(symbols, symbol)\n\tdimensions[symbol] = d\n\tmu.Unlock()\n\treturn d", func() *core.Result { return goproto.RunLocks(def, core.Pkgs("./unit")) }},
		{"ERR.overwrite", "optimize/minimize.go", "if settings.Recorder != nil && err == nil {", "if settings.Recorder != nil {", func() *core.Result { return errx.Run(def, core.Pkgs("./optimize")) }},
		{"ERR.swallow", "interp/cubic.go", "\terr := x.SolveVec(a, b)\n", "\terr := x.SolveVec(a, b)\n\tif _, ok := err.(mat.Condition); ok {\n\t\terr = nil\n\t}\n", func() *core.Result { return errx.Run(def, core.Pkgs("./interp")) }},
		{"GOPROTO.latch", "optimize/minimize.go", "\t\tif status != NotTerminated || err != nil {\n\t\t\tselect {\n\t\t\tcase <-done:\n\t\t\tdefault:\n\t\t\t\tfinalStatus = status\n\t\t\t\tfinalError = err\n", "\t\tif status != NotTerminated || err != nil {\n\t\t\tfinalStatus = status\n\t\t\tselect {\n\t\t\tcase <-done:\n\t\t\tdefault:\n\t\t\t\tfinalStatus = status\n\t\t\t\tfinalError = err\n", func() *core.Result { return goproto.RunLatch(def, core.Pkgs("./optimize")) }},
		{"INIT.state", "mat/cholesky.go", "\t\tc.chol = NewTriDense(n, Upper, nil)\n\t} else {\n\t\tc.chol.Reset()\n\t\tc.chol.reuseAsNonZeroed(n, Upper)\n\t}\n\tc.piv = useInt(c.piv, n)\n\tc.pivTrans = useInt(c.pivTrans, n)\n\tc.rank = 0\n\tc.ok = false\n\tc.cond = math.Inf(1)\n", "\t\tc.chol = NewTriDense(n, Upper, nil)\n\t\tc.cond = math.Inf(1)\n\t} else {\n\t\tc.chol.Reset()\n\t\tc.chol.reuseAsNonZeroed(n, Upper)\n\t}\n\tc.piv = useInt(c.piv, n)\n\tc.pivTrans = useInt(c.pivTrans, n)\n\tc.rank = 0\n\tc.ok = false\n", func() *core.Result { return initx.Run(def, "./mat") }},
		{"FACT.failstate", "mat/cholesky.go", "\t\tputFloat64s(work)\n\t\tch.Reset()\n\t\treturn false", "\t\tputFloat64s(work)\n\t\treturn false", func() *core.Result { return factx.Run(def) }},
		{"INIT.complete", "optimize/linesearch.go", "\tls.first = true\n\tls.nextMajor = false\n", "\tls.first = true\n", func() *core.Result { return initx.RunComplete(def, "./optimize") }},
		{"FACT.alias", "mat/lu.go", "\t\t\tlu.swaps = useInt(lu.swaps, n)\n", "\t\t\tlu.swaps = orig.swaps[:n]\n", func() *core.Result { return factx.Run(def) }},
		{"MAT.guardorder", "mat/symmetric.go", "\t\ts.CopySym(a)\n\t}\n\n\tif xIsVec {\n\t\tblas64.Syr(alpha, rv.mat, s.mat)", "\t\ts.CopySym(a)\n\t}\n\tif xIsVec {\n\t\tr, c := xU.Dims()\n\t\ts.checkOverlap(generalFromVector(rv.mat, r, c))\n\t}\n\n\tif xIsVec {\n\t\tblas64.Syr(alpha, rv.mat, s.mat)", func() *core.Result { return matargs.Run(def) }},
		{"MAT.access", "mat/dense.go", "if i >= m.mat.Rows || i < 0 {\n\t\tpanic(ErrRowAccess)", "if i >= m.capRows || i < 0 {\n\t\tpanic(ErrRowAccess)", func() *core.Result { return matargs.RunAccess(def) }},
		{"GRAPHINV.relit", "graph/simple/simple.go", "return WeightedEdge{F: e.T, T: e.F, W: e.W}", "return WeightedEdge{F: e.T, T: e.F}", func() *core.Result { return graphinv.RunRelit(def, "./graph/simple", "./graph/multi") }},
		{"GLOBAL.state", "dsp/transform/hilbert.go", "// Hilbert implements", "var hilbertCache = map[int]*Hilbert{}\n\n// Hilbert implements", func() *core.Result { return globalx.RunDecls(def, core.Pkgs("./dsp/transform"), nil) }},
		{"GRAPHINV.mapinit", "graph/multi/undirected.go", "\tcase g.lineIDs[xid] == nil:\n\t\tuids := uid.NewSet()\n\t\tlineID = uids.NewID()\n\t\tg.lineIDs[xid] = map[int64]*uid.Set{yid: uids}", "\tcase g.lineIDs[xid][yid] == nil:\n\t\tuids := uid.NewSet()\n\t\tlineID = uids.NewID()\n\t\tg.lineIDs[xid] = map[int64]*uid.Set{yid: uids}", func() *core.Result { return graphinv.RunMapInit(def, "./graph/multi") }},
		{"NILGUARD.sibling", "graph/encoding/dot/decode.go", "\t\t\tif gen.edgeAttr == nil {\n\t\t\t\treturn\n\t\t\t}\n\t\t\tn = gen.edgeAttr", "\t\t\tif gen.nodeAttr == nil {\n\t\t\t\treturn\n\t\t\t}\n\t\t\tn = gen.edgeAttr", func() *core.Result { return decode.RunNilGuard(def, core.Pkgs("./graph/encoding/dot")) }},
		{"BETA.noread", "blas/gonum/level3float64.go", "\tif beta == 0 {\n\t\tfor i := 0; i < m; i++ {\n\t\t\tctmp := c[i*ldc : i*ldc+n]\n\t\t\tfor j := range ctmp {\n\t\t\t\tctmp[j] = 0", "\tif beta == 0 {\n\t\tfor i := 0; i < m; i++ {\n\t\t\tctmp := c[i*ldc : i*ldc+n]\n\t\t\tfor j := range ctmp {\n\t\t\t\tctmp[j] *= beta", func() *core.Result { return flagx.RunBetaZero(def, core.Pkgs("./blas/gonum")) }},
		{"GUARD.operand", "lapack/gonum/dbdsqr.go", "if ncc > 0 {\n\t\t\t\timpl.Dlasr(blas.Left, lapack.Variable, lapack.Forward, n, ncc, work, work[n-1:], c, ldc)", "if nru > 0 {\n\t\t\t\timpl.Dlasr(blas.Left, lapack.Variable, lapack.Forward, n, ncc, work, work[n-1:], c, ldc)", func() *core.Result { return flagx.RunGuardOperand(def, core.Pkgs("./lapack/gonum")) }},
		{"GOPROTO.scratch", "optimize/minimize.go", "\tworker := func() {\n\t\tx := make([]float64, dim)\n", "\tx := make([]float64, dim)\n\tworker := func() {\n", func() *core.Result { return goproto.Run(def, core.Pkgs("./optimize")) }},
		{"DECODE.errdrop", "mat/io.go", "err := header.unmarshalBinary(data[:headerSize])\n\tif err != nil {\n\t\treturn err\n\t}", "header.unmarshalBinary(data[:headerSize])", func() *core.Result { return decode.RunErrDrop(def, core.Pkgs("./mat")) }},
		{"OVERLAP.extent", "mat/shadow.go", "if off < 0 && len(a.Data) <= -off {", "if off < 0 && a.N <= -off {", func() *core.Result { return overlap.RunExtent(def) }},
		{"ASM.lost", "internal/asm/c64/dotcunitary_amd64.s", "\tADDPS X3, SUM // SUM += X_i\n\ndotc_end:", "\tMOVAPS X3, SUM // SUM = X_i\n\ndotc_end:", func() *core.Result { return asmx.Run() }},
		{"ASM.lost", "internal/asm/c64/dotcunitary_amd64.s", "\tCMPQ TAIL, $0 // if TAIL == 0 { return }\n\tJE   dotc_end", "\tCMPQ TAIL, $0 // if TAIL == 0 { return }\n\tJE   dotc_ret", func() *core.Result { return asmx.Run() }},
		{"ARGS.fullrow", "blas/gonum/dgemm.go", "len(c) < (m-1)*ldc+n", "len(c) < m*ldc", func() *core.Result { return worksize.RunArms(def, core.Pkgs("./blas/gonum")) }},
		{"DECODE.order", "mat/io.go", "\tif len(data) != headerSize+int(rows*cols)*sizeFloat64 {\n\t\treturn errBadBuffer\n\t}\n", "\tm.reuseAsNonZeroed(int(rows), int(cols))\n\tif len(data) != headerSize+int(rows*cols)*sizeFloat64 {\n\t\treturn errBadBuffer\n\t}\n", func() *core.Result { return decode.RunOrder(def, core.Pkgs("./mat")) }},
		{"OKFLOW.condpath", "mat/cholesky.go", "\t\tlapack64.Potrs(c.chol.mat, dst.asGeneral())\n\t\tif c.cond > ConditionTolerance {\n\t\t\treturn Condition(c.cond)\n\t\t}\n\t\treturn nil", "\t\tlapack64.Potrs(c.chol.mat, dst.asGeneral())\n\t\treturn nil", func() *core.Result { return okflow.Run(def, core.Pkgs("./mat", "./lapack/lapack64", "./lapack/gonum")) }},
		{"FACT.condafter", "mat/lq.go", "\tlapack64.Gelqf(lq.lq.mat, lq.tau, work, len(work))\n\tputFloat64s(work)\n\tlq.updateCond(norm)", "\tlq.updateCond(norm)\n\tlapack64.Gelqf(lq.lq.mat, lq.tau, work, len(work))\n\tputFloat64s(work)", func() *core.Result { return factx.Run(def) }},
		{"OPT.limits", "optimize/minimize.go", "stats.GradEvaluations >= settings.GradEvaluations", "stats.FuncEvaluations >= settings.GradEvaluations", func() *core.Result { return initx.RunLimits(def) }},
		{"GOPROTO.semcap", "blas/gonum/dgemm.go", "workerLimit := make(chan struct{}, runtime.GOMAXPROCS(0))", "workerLimit := make(chan struct{}, runtime.GOMAXPROCS(0)-1)", func() *core.Result { return goproto.Run(def, core.Pkgs("./blas/gonum")) }},
		{"WORKSIZE.fallback", "lapack/gonum/dgeqp3.go", "nb = (lwork - 2*sn) / (sn + 1)", "nb = (lwork - 2*sn) / sn", func() *core.Result { return worksize.RunFallback(def, core.Pkgs("./lapack/gonum")) }},
		{"WORKSIZE.fallback", "lapack/gonum/dgehrd.go", "nb = (lwork - tsize) / n", "nb = lwork / n", func() *core.Result { return worksize.RunFallback(def, core.Pkgs("./lapack/gonum")) }},
		{"GRAPHINV.prune", "graph/multi/directed.go", "\tdelete(g.from[fid][tid], id)\n\tif len(g.from[fid][tid]) == 0 {\n\t\tdelete(g.from[fid], tid)\n\t}", "\tdelete(g.from[fid][tid], id)\n\tdelete(g.from[fid], tid)", func() *core.Result { return graphinv.Run(def) }},
		{"TWIN.sibguard", "graph/iterator/lines_map.go", "func (l *Lines) Next() bool {\n\tif l.pos >= l.lines {\n\t\treturn false\n\t}\n", "func (l *Lines) Next() bool {\n", func() *core.Result { return twin.Run(twin.Which{SiblingState: []string{"graph/iterator"}}) }},
		{"CONSTFOLD.underflow", "lapack/gonum/dlassq.go", "abig += (amed * dsbig) * dsbig", "abig += dsbig * dsbig * amed", func() *core.Result { return constfold.Run(def, core.Pkgs("./lapack/gonum")) }},
		{"GOPROTO.accumzero", "diff/fd/gradient.go", "\tfor i := range dst {\n\t\tdst[i] = 0\n\t}\n\t// Read in all of the results.", "\t// Read in all of the results.", func() *core.Result { return goproto.Run(def, core.Pkgs("./diff/fd")) }},
		{"RESET.noleak", "dsp/fourier/fourier.go", "\tif dst == nil {\n\t\tdst = make([]float64, t.Len())\n\t} else if len(dst) != t.Len() {\n\t\tpanic(\"fourier: destination length mismatch\")", "\tif dst == nil {\n\t\tdst = t.real\n\t} else if len(dst) != t.Len() {\n\t\tpanic(\"fourier: destination length mismatch\")", func() *core.Result { return dspx.RunNoAlias(def) }},
		{"WORKSIZE.min", "lapack/gonum/dgels.go", "wsize := max(1, mn+max(mn, nrhs)*nb)", "wsize := max(1, mn+mn*nb)", wsz},
		{"WORKSIZE.querylen", "lapack/gonum/dormqr.go", "case lwork < max(1, nw) && lwork != -1:\n\t\tpanic(badLWork)", "case lwork < max(1, nw) && lwork != -1:\n\t\tpanic(badLWork)\n\tcase len(tau) != k:\n\t\tpanic(badLenTau)", wsz},
		{"WORKSIZE.min", "lapack/gonum/dsyev.go", "lworkopt := max(1, (nb+2)*n)", "lworkopt := max(1, (nb+1)*n)", wsz},
		{"STRIDE.index", "blas/gonum/level2float64.go", "jy := ky + (i+1)*incY", "jy := ky + (i+1)*incX", blas},
		{"STRIDE.len", "blas/gonum/level2float64.go", "(incY < 0 && len(y) <= (1-n)*incY)", "(incY < 0 && len(y) <= (1-n)*incX)", blas},
		{"STRIDE.start", "blas/gonum/level2float64.go", "jy := ky + (i+1)*incY", "jy := (i + 1) * incY", blas},
		{"STRIDE.rowoffset", "blas/gonum/level2float64.go", "x[i] *= a[i*lda+i]", "x[i] *= a[i*n+i]", blas},
		{"STRIDE.pair", "lapack/gonum/dgeqrf.go", "impl.Dgeqr2(m-i, n-i, a[i*lda+i:], lda, tau[i:], work)", "impl.Dgeqr2(m-i, n-i, a[i*lda+i:], ldwork0, tau[i:], work)", nil},
		{"STRIDE.walk", "lapack/gonum/dlarfb.go", "work[i*ldwork+j]", "work[i*ldwork+j]", nil},
		{"STRIDE.vecinc", "lapack/gonum/dlarfg.go", "bi.Dscal(n-1, rsafmn, x, incX)", "bi.Dscal(n-1, rsafmn, x, 1)", lap},
		{"STRIDE.extent", "blas/gonum/level2float64.go", "kx = -(lenX - 1) * incX", "kx = -(lenY - 1) * incX", blas},
		{"STRIDE.workld", "lapack/gonum/dgesvd.go", "work[iu:], ldworku, a, lda, 0, vt, ldvt)", "work[iu:], m, a, lda, 0, vt, ldvt)", lap},
		{"STRIDE.worknext", "lapack/gonum/dgesvd.go", "itau := iu + ldworku*n", "itau := iu + n*n", lap},
		{"FLAG.trans", "blas/blas64/blas64.go", "if tA == blas.NoTrans {\n\t\tm, k = a.Rows, a.Cols\n\t} else {\n\t\tm, k = a.Cols, a.Rows\n\t}", "if tA != blas.Trans {\n\t\tm, k = a.Rows, a.Cols\n\t} else {\n\t\tm, k = a.Cols, a.Rows\n\t}", func() *core.Result { return flagx.Run(def, core.Pkgs("./blas/blas64")) }},
		{"FACT.normorder", "mat/lu.go", "anorm := lapack64.Lange(norm, lu.lu.mat, work)\n\tputFloat64s(work)\n\tlu.ok = lapack64.Getrf(lu.lu.mat, lu.swaps)", "lu.ok = lapack64.Getrf(lu.lu.mat, lu.swaps)\n\tanorm := lapack64.Lange(norm, lu.lu.mat, work)\n\tputFloat64s(work)", func() *core.Result { return factx.Run(def) }},
		{"FACT.condunit", "mat/lu.go", "lu.cond = 1 / v", "lu.cond = v", func() *core.Result { return factx.Run(def) }},
		{"FACT.condunit", "mat/dense_arithmetic.go", "cond := 1 / rcond\n\tif cond > ConditionTolerance", "cond := rcond\n\tif cond > ConditionTolerance", func() *core.Result { return factx.Run(def) }},
		{"FACT.state", "mat/cholesky.go", "c.chol.Copy(chol.chol)\n\tc.cond = chol.cond", "c.chol.Copy(chol.chol)\n\t_ = chol.cond", func() *core.Result { return factx.Run(def) }},
		{"NILRECV", "mat/cholesky.go", "var tmp VecDense\n\t\ttmp.CloneFromVec(x)", "var tmp *VecDense\n\t\ttmp.CopyVec(x)", func() *core.Result { return nilrecv.Run(def, core.Pkgs("./mat")) }},
		{"STRIDE.contig", "mat/cholesky.go", "xmat = rv.RawVector()", "xmat = rv.RawVector(); copy(work, rv.RawVector().Data)", matS},
		{"ARGS.order", "lapack/gonum/dgetrf.go", "mn := min(m, n)", "mn := min(m, n); ipiv[0] = 0", func() *core.Result { return args.Run(def, core.Pkgs("./lapack/gonum"), lapackArgs) }},
		{"ARGS.lencheck", "lapack/gonum/dgetf2.go", "case len(a) < (m-1)*lda+n:\n\t\tpanic(shortA)", "case lda < 0:\n\t\tpanic(shortA)", func() *core.Result { return args.Run(def, core.Pkgs("./lapack/gonum"), lapackArgs) }},
		{"ARGS.query", "lapack/gonum/dgeqrf.go", "if lwork == -1 {\n\t\twork[0] = float64(n * nb)", "if lwork == -1 {\n\t\ttau[0] = 0\n\t\twork[0] = float64(n * nb)", func() *core.Result { return args.Run(def, core.Pkgs("./lapack/gonum"), lapackArgs) }},
		{"LOOPIDX.unused", "lapack/gonum/dgetf2.go", "a[(j+1+i)*lda+j] = a[(j+1+i)*lda+j] / a[lda*j+j]", "a[(j+1)*lda+j] = a[(j+1)*lda+j] / a[lda*j+j]", func() *core.Result { return loopidx.Run(def, core.Pkgs("./lapack/gonum")) }},
		{"PARAMUSE.read", "internal/asm/f32/l2norm.go", "for ix := uintptr(0); ix < n*incX; ix += incX {", "for ix := uintptr(0); ix < uintptr(len(x)); ix += incX {", func() *core.Result { return paramuse.Run(def, core.Pkgs("./internal/asm/f32")) }},
		{"OKFLOW.report", "lapack/gonum/dgesv.go", "\treturn ok\n}", "\treturn true\n}", func() *core.Result { return okflow.Run(def, core.Pkgs("./lapack/gonum")) }},
		{"OKFLOW.use", "mat/cholesky.go", "_, ok = lapack64.Potrf(sym)\n\tif ok {", "lapack64.Potrf(sym)\n\tif ok {", func() *core.Result { return okflow.Run(def, core.Pkgs("./mat")) }},
		{"OKFLOW.cond", "mat/lu.go", "if lu.cond > ConditionTolerance {\n\t\treturn Condition(lu.cond)\n\t}\n\treturn nil", "return nil", func() *core.Result { return okflow.Run(def, core.Pkgs("./mat")) }},
		{"OVERLAP.guard", "mat/dense_arithmetic.go", "if restore == nil {\n\t\t\t\tm.checkOverlap(bU.mat)\n\t\t\t}\n\t\t\tblas64.Gemm(aT, bT, 1, aU.mat, bU.mat, 0, m.mat)", "blas64.Gemm(aT, bT, 1, aU.mat, bU.mat, 0, m.mat)", func() *core.Result { return overlap.Run(def) }},
		{"OVERLAP.symmetric", "mat/shadow_complex.go", "if rectanglesOverlap(off, a.Cols, b.Cols, min(a.Stride, b.Stride)) {", "if rectanglesOverlap(off, a.Cols, b.Cols, a.Stride) {", func() *core.Result { return overlap.RunSymmetric(def) }},
		{"TWIN.shadow", "mat/shadow.go", "if off > 0 && len(a.Data) <= off {", "if off > 0 && len(a.Data) < off {", func() *core.Result { return twin.Run(twin.Which{Shadow: true}) }},
		{"POOL.uaf", "mat/cholesky.go", "v := lapack64.Pocon(sym, norm, work, iwork)\n\tputInts(iwork)", "putInts(iwork)\n\tv := lapack64.Pocon(sym, norm, work, iwork)", func() *core.Result { return pool.Run(def) }},
		{"MODSET.mat", "mat/dense_arithmetic.go", "a1 := m\n\ta1.Copy(a)", "a1, isD := a.(*Dense)\n\tif !isD {\n\t\ta1 = m\n\t\ta1.Copy(a)\n\t}", func() *core.Result { return modset.Run(core.Config{Tags: "noasm"}) }},
		{"MAT.order", "mat/dense_arithmetic.go", "\tm.reuseAsNonZeroed(ar, ac)\n\n\tif arm, ok := a.(*Dense); ok {", "\tm.reuseAsNonZeroed(ar, ac)\n\tif ar < 0 {\n\t\tpanic(ErrShape)\n\t}\n\n\tif arm, ok := a.(*Dense); ok {", func() *core.Result { return matargs.Run(def) }},
		{"GOPROTO.capture", "integrate/quad/quad.go", "mux.Lock()\n\t\t\tintegral += subIntegral\n\t\t\tmux.Unlock()", "mux.Lock()\n\t\t\tmux.Unlock()\n\t\t\tintegral += subIntegral", func() *core.Result { return goproto.Run(def, core.Pkgs("./integrate/quad")) }},
		{"GOPROTO.lockpair", "diff/fd/jacobian.go", "mu[job.j].Lock()\n", "if n > 2 {\n\t\t\t\tmu[job.j].Lock()\n\t\t\t}\n", func() *core.Result { return goproto.RunLocks(def, core.Pkgs("./diff/fd")) }},
		{"GOPROTO.run", "optimize/guessandcheck.go", "\tclose(operation)\n}", "}", func() *core.Result { return goproto.RunProtocol(def) }},
		{"INIT.state", "optimize/listsearch.go", "\tl.bestF = math.Inf(1)\n\tl.bestIdx = -1", "\tif l.rows != r {\n\t\tl.bestF = math.Inf(1)\n\t}\n\tl.bestIdx = -1", func() *core.Result { return initx.Run(def, "./optimize") }},
		{"GOPROTO.sibling", "diff/fd/laplacian.go", "if hasOrigin && !originKnown {", "if hasOrigin {", func() *core.Result { return goproto.Run(def, core.Pkgs("./diff/fd")) }},
		{"GRAPHINV.converse", "graph/simple/directed.go", "delete(g.to[tid], fid)", "delete(g.to[fid], tid)", func() *core.Result { return graphinv.Run(def) }},
		{"GRAPHINV.uid", "graph/set/uid/uid.go", "\ts.free.Remove(id)\n", "\tif id <= s.maxID {\n\t\ts.free.Remove(id)\n\t}\n", func() *core.Result { return graphinv.Run(def) }},
		{"GRAPHINV.iter", "graph/iterator/nodes_map.go", "n.pos++", "_ = n.pos", func() *core.Result { return graphinv.RunIterators(def) }},
		{"DECODE.mul", "mat/io.go", "if cols != 0 && rows > maxLen/cols {\n\t\treturn errTooBig\n\t}\n\tsize := rows * cols\n\tif size == 0 {\n\t\treturn ErrZeroLength", "size := rows * cols\n\tif size == 0 {\n\t\treturn ErrZeroLength", func() *core.Result { return decode.Run(def, "./mat") }},
		{"DECODE.selfcmp", "stat/card/hll32.go", "ta := reflect.TypeOf(a.hash)", "ta := reflect.TypeOf(b.hash)", func() *core.Result { return decode.Run(def, "./stat/card") }},
		{"DECODE.fields", "stat/card/hll32.go", "\th.p = p\n", "\t_ = p\n", func() *core.Result { return decode.RunFields(def, "./stat/card") }},
		{"DECODE.clone", "graph/formats/rdf/urna.go", "ordered: make([]string, len(i.ordered)),", "ordered: i.ordered,", func() *core.Result { return decode.RunClone(def, "./graph/formats/rdf") }},
		{"RESET.fields", "dsp/fourier/fourier.go", "\tfftpack.Rffti(n, t.work, t.ifac[:])", "\tfftpack.Rffti(n, t.work, make([]int, 15))", func() *core.Result { return dspx.RunReset(def) }},
		{"WINDOW.pointwise", "dsp/window/window_parametric.go", "v = seq[len(seq)-1-i]\n", "", func() *core.Result { return dspx.RunWindow(def) }},
		{"CONST.stencil", "diff/fd/diff.go", "Stencil:    []Point{{Loc: -1, Coeff: 1}, {Loc: 0, Coeff: -2}, {Loc: 1, Coeff: 1}},", "Stencil:    []Point{{Loc: -1, Coeff: 1}, {Loc: 0, Coeff: -2}, {Loc: 1, Coeff: 2}},", func() *core.Result { return constx.Run(def) }},
		{"TWIN.generated", "blas/gonum/level2float32.go", "kx = -(lenX - 1) * incX", "kx = -(lenX - 2) * incX", func() *core.Result { return twin.Run(twin.Which{Generated: true, Prefixes: []string{"blas/"}}) }},
		{"TWIN.sibstate", "graph/iterator/lines.go", "func (e *OrderedWeightedLines) Reset() {\n\te.idx = -1", "func (e *OrderedWeightedLines) Reset() {\n\te.idx = 0", func() *core.Result { return twin.Run(twin.Which{SiblingState: []string{"graph/iterator"}}) }},
		{"TWIN.bounds", "mat/index_bound_checks.go", "if pj < 0 || b.mat.KL+b.mat.KU+1 <= pj {\n\t\treturn 0", "if pj < 0 || b.mat.Stride <= pj {\n\t\treturn 0", func() *core.Result { return twin.Run(twin.Which{Bounds: true, BoundsFamilies: []string{"mat-index"}}) }},
		{"ASM.window", "internal/asm/f64/dot_amd64.s", "\tMOVSD 0(R9)(SI*8), X1\n\tMULSD X1, X0", "\tMOVUPD 0(R9)(SI*8), X1\n\tMULSD X1, X0", func() *core.Result { return asmx.Run() }},
		{"SIB.guards", "internal/asm/c64/stubs.go", "\tif math32.IsInf(scale, 1) {\n\t\treturn math32.Inf(1)\n\t}\n", "", func() *core.Result { return sibx.Run() }},
		{"ASM.tail", "internal/asm/f64/axpyunitary_amd64.s", "tail_one:\n\tMOVSD (X_PTR)(IDX*8), X2", "tail_one:\n\tMOVUPS (X_PTR)(IDX*8), X2", func() *core.Result { return asmx.Run() }},
		{"ASM.units", "internal/asm/f64/ger_amd64.s", "LEAQ    (X_PTR)(TMP2*1), X_PTR", "LEAQ    (X_PTR)(TMP2*SIZE), X_PTR", func() *core.Result { return asmx.Run() }},
	}
	_ = lap
	for _, c := range all {
		if c.run == nil {
			continue
		}
		canaries[c.rule] = append(canaries[c.rule], c)
	}
}

// runCanaries runs the canaries of the given rules and folds the outcome
// into res: counts for evidence, and a Broken entry for a canary that
// applied but was not reported.
func runCanaries(res *core.Result, rules ...string) {
	for _, rule := range rules {
		for _, c := range canaries[rule] {
			var r *core.Result
			applied := core.WithOverlay(c.file, c.old, c.new, func() { r = c.run() })
			if !applied {
				res.Count("canaries_skipped_anchor_gone", 1)
				if verboseCanary {
					fmt.Println("SKIPPED", c.rule, c.file)
				}
				continue
			}
			res.Count("canaries_applied", 1)
			fired := false
			for _, f := range r.Findings {
				if f.Rule == c.rule || strings.HasPrefix(f.Rule, c.rule) {
					fired = true
				}
			}
			if len(r.Broken) > 0 && !fired {
				// e.g. the mutated file no longer type-checks: the canary is unusable, not the rule
				res.Count("canaries_unusable", 1)
				if verboseCanary {
					fmt.Println("UNUSABLE", c.rule, c.file, r.Broken)
				}
				continue
			}
			if !fired {
				res.Brokenf("canary: rule %s did not report the in-memory mutation of %s (%q -> %q): the rule has stopped seeing this class of defect", c.rule, c.file, first(c.old), first(c.new))
			} else {
				res.Count("canaries_fired", 1)
			}
		}
	}
}

func first(s string) string {
	s = strings.TrimSpace(s)
	if i := strings.Index(s, "\n"); i >= 0 {
		s = s[:i] + " ..."
	}
	if len(s) > 70 {
		s = s[:70] + "..."
	}
	return s
}

var verboseCanary = false

func canaryAll() {
	verboseCanary = true
	res := core.NewResult("canary")
	var rules []string
	for r := range canaries {
		rules = append(rules, r)
	}
	runCanaries(res, rules...)
	for k, v := range res.Counts {
		fmt.Println(k, v)
	}
	for _, b := range res.Broken {
		fmt.Println("BROKEN", b)
	}
}
