// Package cfgx wraps go/cfg with what the path rules need: edge pruning,
// reachability, dominators and a map from any AST node to its block.
package cfgx

import (
	"go/ast"
	"go/types"

	"golang.org/x/tools/go/cfg"
)

// Graph is a function's control-flow graph plus indexes.
type Graph struct {
	*cfg.CFG
	Info *types.Info
	// Where maps every AST node that occurs inside a block node to its
	// block index and the index of the containing top-level node.
	Where map[ast.Node]Loc
	// Keep, if non-nil, filters edges: Keep(from, i) reports whether
	// from.Succs[i] is feasible in the current mode.
	Keep func(b *cfg.Block, i int) bool
}

type Loc struct {
	Block int32
	Index int
}

// IsPanic reports whether call is the builtin panic.
func IsPanic(info *types.Info, call *ast.CallExpr) bool {
	id, ok := call.Fun.(*ast.Ident)
	if !ok || id.Name != "panic" {
		return false
	}
	_, isBuiltin := info.Uses[id].(*types.Builtin)
	return isBuiltin
}

// New builds the graph of a function body. Calls to panic, os.Exit and
// log.Fatal* do not return.
func New(body *ast.BlockStmt, info *types.Info) *Graph {
	g := &Graph{Info: info, Where: map[ast.Node]Loc{}}
	g.CFG = cfg.New(body, func(call *ast.CallExpr) bool {
		return !IsPanic(info, call)
	})
	for _, b := range g.Blocks {
		for i, n := range b.Nodes {
			loc := Loc{b.Index, i}
			ast.Inspect(n, func(x ast.Node) bool {
				if x != nil {
					if _, dup := g.Where[x]; !dup {
						g.Where[x] = loc
					}
				}
				return true
			})
		}
	}
	return g
}

func (g *Graph) succs(b *cfg.Block) []*cfg.Block {
	if g.Keep == nil {
		return b.Succs
	}
	var out []*cfg.Block
	for i, s := range b.Succs {
		if g.Keep(b, i) {
			out = append(out, s)
		}
	}
	return out
}

// Succs returns the feasible successors of b.
func (g *Graph) Succs(b *cfg.Block) []*cfg.Block { return g.succs(b) }

// Reachable returns the set of blocks reachable from entry (block 0).
func (g *Graph) Reachable() []bool {
	seen := make([]bool, len(g.Blocks))
	if len(g.Blocks) == 0 {
		return seen
	}
	var walk func(b *cfg.Block)
	walk = func(b *cfg.Block) {
		if seen[b.Index] {
			return
		}
		seen[b.Index] = true
		for _, s := range g.succs(b) {
			walk(s)
		}
	}
	walk(g.Blocks[0])
	return seen
}

// From returns the blocks reachable from the successors of start
// (start itself only if it lies on a cycle).
func (g *Graph) From(start *cfg.Block) []bool {
	seen := make([]bool, len(g.Blocks))
	var walk func(b *cfg.Block)
	walk = func(b *cfg.Block) {
		if seen[b.Index] {
			return
		}
		seen[b.Index] = true
		for _, s := range g.succs(b) {
			walk(s)
		}
	}
	for _, s := range g.succs(start) {
		walk(s)
	}
	return seen
}

// Dominators computes, for the feasible sub-graph, dom[b] = set of blocks
// dominating b (as bitsets over block indices). Unreachable blocks have nil.
func (g *Graph) Dominators() [][]bool {
	n := len(g.Blocks)
	reach := g.Reachable()
	preds := make([][]int32, n)
	for _, b := range g.Blocks {
		if !reach[b.Index] {
			continue
		}
		for _, s := range g.succs(b) {
			preds[s.Index] = append(preds[s.Index], b.Index)
		}
	}
	dom := make([][]bool, n)
	for i := 0; i < n; i++ {
		if !reach[i] {
			continue
		}
		dom[i] = make([]bool, n)
		if i == 0 {
			dom[i][0] = true
		} else {
			for j := range dom[i] {
				dom[i][j] = true
			}
		}
	}
	for changed := true; changed; {
		changed = false
		for i := 1; i < n; i++ {
			if !reach[i] {
				continue
			}
			nw := make([]bool, n)
			first := true
			for _, p := range preds[i] {
				if dom[p] == nil {
					continue
				}
				if first {
					copy(nw, dom[p])
					first = false
				} else {
					for j := range nw {
						nw[j] = nw[j] && dom[p][j]
					}
				}
			}
			nw[i] = true
			for j := range nw {
				if nw[j] != dom[i][j] {
					changed = true
					break
				}
			}
			dom[i] = nw
		}
	}
	return dom
}

// Cond returns the branch condition that ends block b (nil if b does not
// end in a two-way branch).
func Cond(b *cfg.Block) ast.Expr {
	if len(b.Succs) != 2 || len(b.Nodes) == 0 {
		return nil
	}
	e, _ := b.Nodes[len(b.Nodes)-1].(ast.Expr)
	return e
}

// Parents builds a child->parent map for a subtree.
func Parents(root ast.Node) map[ast.Node]ast.Node {
	par := map[ast.Node]ast.Node{}
	var stack []ast.Node
	ast.Inspect(root, func(n ast.Node) bool {
		if n == nil {
			stack = stack[:len(stack)-1]
			return true
		}
		if len(stack) > 0 {
			par[n] = stack[len(stack)-1]
		}
		stack = append(stack, n)
		return true
	})
	return par
}

// MustPass solves the forward must-analysis "every feasible path from
// entry to the start of block b passes a block for which gen is true".
// It returns in[b]; unreachable blocks report true.
func (g *Graph) MustPass(gen func(b *cfg.Block) bool) []bool {
	n := len(g.Blocks)
	reach := g.Reachable()
	preds := make([][]int32, n)
	for _, b := range g.Blocks {
		if !reach[b.Index] {
			continue
		}
		for _, s := range g.succs(b) {
			preds[s.Index] = append(preds[s.Index], b.Index)
		}
	}
	gens := make([]bool, n)
	for _, b := range g.Blocks {
		gens[b.Index] = gen(b)
	}
	in := make([]bool, n)
	out := make([]bool, n)
	for i := range in {
		in[i], out[i] = true, true
	}
	in[0] = false
	out[0] = gens[0]
	for changed := true; changed; {
		changed = false
		for i := 0; i < n; i++ {
			if !reach[i] {
				continue
			}
			v := true
			if i == 0 {
				v = false
			}
			for _, p := range preds[i] {
				v = v && out[p]
			}
			if i == 0 {
				v = false
			}
			o := v || gens[i]
			if v != in[i] || o != out[i] {
				in[i], out[i] = v, o
				changed = true
			}
		}
	}
	return in
}

// Eval3 evaluates a branch condition in three-valued logic. go/cfg keeps
// `a && b`, `a || b` and `!a` as one condition node, so the rules that prune
// edges under an assumption decompose the condition here: atom reports the
// truth of a leaf (known == false when the assumption says nothing about it).
func Eval3(e ast.Expr, atom func(ast.Expr) (val, known bool)) (val, known bool) {
	e = ast.Unparen(e)
	switch x := e.(type) {
	case *ast.BinaryExpr:
		switch x.Op.String() {
		case "&&":
			a, ak := Eval3(x.X, atom)
			b, bk := Eval3(x.Y, atom)
			if (ak && !a) || (bk && !b) {
				return false, true
			}
			if ak && bk {
				return true, true
			}
			return false, false
		case "||":
			a, ak := Eval3(x.X, atom)
			b, bk := Eval3(x.Y, atom)
			if (ak && a) || (bk && b) {
				return true, true
			}
			if ak && bk {
				return false, true
			}
			return false, false
		}
	case *ast.UnaryExpr:
		if x.Op.String() == "!" {
			if v, k := Eval3(x.X, atom); k {
				return !v, true
			}
			return false, false
		}
	}
	return atom(e)
}

// KeepUnder returns an edge filter that follows only the edges consistent
// with the truth assignment given by atom (see Eval3); tagged-switch case
// expressions are handed to atom as they are.
func KeepUnder(atom func(ast.Expr) (val, known bool)) func(b *cfg.Block, i int) bool {
	return func(b *cfg.Block, i int) bool {
		c := Cond(b)
		if c == nil {
			return true
		}
		v, known := Eval3(c, atom)
		if !known {
			return true
		}
		return (i == 0) == v
	}
}

// MustReachExit solves the backward must-analysis "every feasible path from
// the end of block b to a normal function exit passes a block for which gen
// is true". Blocks that end in panic (no successors, last node a call of the
// builtin panic) are vacuous: the function does not return through them.
func (g *Graph) MustReachExit(gen func(b *cfg.Block) bool) []bool {
	n := len(g.Blocks)
	out := make([]bool, n)
	gens := make([]bool, n)
	exit := make([]bool, n)
	for _, b := range g.Blocks {
		gens[b.Index] = gen(b)
		out[b.Index] = true
		if len(g.succs(b)) == 0 {
			isPanic := false
			if len(b.Nodes) > 0 {
				if es, ok := b.Nodes[len(b.Nodes)-1].(*ast.ExprStmt); ok {
					if c, ok := es.X.(*ast.CallExpr); ok && IsPanic(g.Info, c) {
						isPanic = true
					}
				}
			}
			if !isPanic {
				exit[b.Index] = true
				out[b.Index] = false
			}
		}
	}
	for changed := true; changed; {
		changed = false
		for i := n - 1; i >= 0; i-- {
			b := g.Blocks[i]
			if exit[i] {
				continue
			}
			ss := g.succs(b)
			if len(ss) == 0 {
				continue
			}
			v := true
			for _, s := range ss {
				v = v && (gens[s.Index] || out[s.Index])
			}
			if v != out[i] {
				out[i] = v
				changed = true
			}
		}
	}
	return out
}

// leaves calls f on the leaves of a condition under &&, || and !.
func leaves(e ast.Expr, f func(ast.Expr)) {
	e = ast.Unparen(e)
	switch x := e.(type) {
	case *ast.BinaryExpr:
		if s := x.Op.String(); s == "&&" || s == "||" {
			leaves(x.X, f)
			leaves(x.Y, f)
			return
		}
	case *ast.UnaryExpr:
		if x.Op.String() == "!" {
			leaves(x.X, f)
			return
		}
	}
	f(e)
}

// ReachSome computes reachability under an assumption that decides some
// condition leaves (assume) while taking path correlation through the other
// leaves of the *same* conditions into account: a refactoring such as
//
//	switch { case incY == 1 && beta == 0: …; case incY == 1: scale(beta) … }
//
// puts a leaf the assumption decides (beta == 0) next to one it does not
// (incY == 1), and the second case is reached with incY == 1 only if the first
// was false, i.e. beta != 0. The undecided leaves that share a condition with
// a decided leaf and that are stable (stable reports that the leaf's operands
// cannot change during the function) are enumerated (at most 8, as `x == c`
// with `x != c` as its negation); a block is reported reachable if it is
// reachable from the entry under at least one truth assignment. Every
// concrete execution satisfying the assumption agrees with one assignment, so
// the result over-approximates the feasible paths.
func (g *Graph) ReachSome(assume func(ast.Expr) (bool, bool), stable func(ast.Expr) bool) []bool {
	norm := func(e ast.Expr) (string, bool) {
		if be, ok := e.(*ast.BinaryExpr); ok && be.Op.String() == "!=" {
			return types.ExprString(be.X) + " == " + types.ExprString(be.Y), true
		}
		return types.ExprString(e), false
	}
	var free []string
	seen := map[string]bool{}
	for _, b := range g.Blocks {
		c := Cond(b)
		if c == nil {
			continue
		}
		if _, known := Eval3(c, assume); known {
			continue
		}
		decided := false
		leaves(c, func(l ast.Expr) {
			if _, k := assume(l); k {
				decided = true
			}
		})
		if !decided {
			continue
		}
		leaves(c, func(l ast.Expr) {
			if _, k := assume(l); k || !stable(l) {
				return
			}
			if key, _ := norm(l); !seen[key] && len(free) < 8 {
				seen[key] = true
				free = append(free, key)
			}
		})
	}
	out := make([]bool, len(g.Blocks))
	saved := g.Keep
	for mask := 0; mask < 1<<len(free); mask++ {
		val := map[string]bool{}
		for i, k := range free {
			val[k] = mask&(1<<i) != 0
		}
		g.Keep = KeepUnder(func(e ast.Expr) (bool, bool) {
			if v, k := assume(e); k {
				return v, true
			}
			key, neg := norm(e)
			if v, ok := val[key]; ok {
				return v != neg, true
			}
			return false, false
		})
		for i, r := range g.Reachable() {
			if r {
				out[i] = true
			}
		}
	}
	g.Keep = saved
	return out
}

// StableLeaf returns a predicate for condition leaves whose value cannot
// change while body runs: no calls other than len, no indexing or
// dereference, and only variables that body never assigns (parameters,
// captured variables) or assigns exactly once (:= locals).
func StableLeaf(info *types.Info, body *ast.BlockStmt) func(ast.Expr) bool {
	nassign := map[types.Object]int{}
	obj := func(id *ast.Ident) types.Object {
		if o := info.Defs[id]; o != nil {
			return o
		}
		return info.Uses[id]
	}
	ast.Inspect(body, func(n ast.Node) bool {
		switch x := n.(type) {
		case *ast.AssignStmt:
			for _, l := range x.Lhs {
				if id, ok := l.(*ast.Ident); ok {
					if o := obj(id); o != nil {
						nassign[o]++
					}
				}
			}
		case *ast.IncDecStmt:
			if id, ok := x.X.(*ast.Ident); ok {
				if o := obj(id); o != nil {
					nassign[o] += 2
				}
			}
		case *ast.RangeStmt:
			for _, e := range []ast.Expr{x.Key, x.Value} {
				if id, ok := e.(*ast.Ident); ok {
					if o := obj(id); o != nil {
						nassign[o] += 2
					}
				}
			}
		case *ast.UnaryExpr:
			if x.Op.String() == "&" {
				if id, ok := ast.Unparen(x.X).(*ast.Ident); ok {
					if o := obj(id); o != nil {
						nassign[o] += 2
					}
				}
			}
		}
		return true
	})
	return func(e ast.Expr) bool {
		ok := true
		ast.Inspect(e, func(n ast.Node) bool {
			switch x := n.(type) {
			case *ast.CallExpr:
				if id, isID := x.Fun.(*ast.Ident); !isID || id.Name != "len" {
					ok = false
				}
			case *ast.IndexExpr, *ast.StarExpr, *ast.SliceExpr:
				ok = false
			case *ast.Ident:
				if v, isVar := obj(x).(*types.Var); isVar && nassign[v] > 1 {
					ok = false
				}
			}
			return ok
		})
		return ok
	}
}

// WithBoolDefs extends an assumption to boolean locals that body assigns
// exactly once (`unitary := incX == 1 && incY == 1`): such a leaf is evaluated
// through its definition, three-valued, before it is left undecided.
func WithBoolDefs(info *types.Info, body *ast.BlockStmt, assume func(ast.Expr) (bool, bool)) func(ast.Expr) (bool, bool) {
	obj := func(id *ast.Ident) types.Object {
		if o := info.Defs[id]; o != nil {
			return o
		}
		return info.Uses[id]
	}
	n := map[types.Object]int{}
	def := map[types.Object]ast.Expr{}
	ast.Inspect(body, func(nd ast.Node) bool {
		switch x := nd.(type) {
		case *ast.AssignStmt:
			for i, l := range x.Lhs {
				if id, ok := l.(*ast.Ident); ok {
					if o := obj(id); o != nil {
						n[o]++
						if len(x.Lhs) == len(x.Rhs) {
							def[o] = x.Rhs[i]
						}
					}
				}
			}
		case *ast.ValueSpec:
			for i, id := range x.Names {
				if o := obj(id); o != nil && len(x.Values) == len(x.Names) {
					n[o]++
					def[o] = x.Values[i]
				}
			}
		}
		return true
	})
	var out func(e ast.Expr) (bool, bool)
	depth := 0
	out = func(e ast.Expr) (bool, bool) {
		if v, k := assume(e); k {
			return v, true
		}
		if id, ok := ast.Unparen(e).(*ast.Ident); ok && depth < 5 {
			o := obj(id)
			if o == nil || n[o] != 1 || def[o] == nil {
				return false, false
			}
			if b, ok := o.Type().Underlying().(*types.Basic); !ok || b.Kind() != types.Bool {
				return false, false
			}
			depth++
			v, k := Eval3(def[o], out)
			depth--
			return v, k
		}
		return false, false
	}
	return out
}
