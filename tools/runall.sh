#!/usr/bin/env bash
# runs every registered quick check; prints exit codes; fails if any is non-zero
cd /verif; rc=0
for p in $(jq -r '.checks[].property_id' MANIFEST.json); do
  ./run.sh $p ${1:-quick} > /tmp/runall.$p.txt 2>&1; e=$?
  echo "$p exit=$e $(tail -1 /tmp/runall.$p.txt | cut -c1-140)"
  [ $e -ne 0 ] && { rc=1; grep -E "BROKEN|^\s+\[" /tmp/runall.$p.txt | head -5 | cut -c1-300; }
done
exit $rc
