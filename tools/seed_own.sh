#!/usr/bin/env bash
# usage: seed_own.sh [jobs] [seed ids...]
# Re-runs only the seed's OWN property check (quick tier) for the named seeds
# (default: every seed whose meta.json has an empty detected_by and whose
# property is claimed) in scratch worktrees with a frozen copy of bin/gverif,
# and ADDS a detection to detected_by. Used after a rule was added late, when
# a full seed_par.sh run is too slow.
set -u
export GOFLAGS=-mod=mod GOPROXY=off GOSUMDB=off GOTOOLCHAIN=local GOWORK=off
jobs="${1:-12}"; shift 2>/dev/null
ids="$*"
claimed=$(jq -r '.checks[].property_id' /verif/MANIFEST.json | tr '\n' ' ')
if [ -z "$ids" ]; then
  for d in /verif/seeded/C*/; do
    id=$(basename "$d"); p=${id%%-*}
    case " $claimed " in *" $p "*) ;; *) continue;; esac
    n=$(jq -r '.detected_by | length' "$d/meta.json" 2>/dev/null)
    [ "$n" = "0" ] && ids="$ids $id"
  done
fi
base=$(mktemp -d /tmp/seedown.XXXXXX)
( cd /verif/gverif && go build -o "$base/gverif" ./cmd/gverif ) || exit 2
i=0
for id in $ids; do echo "$id" >> "$base/q.$((i % jobs))"; i=$((i+1)); done
for j in $(seq 0 $((jobs-1))); do
  [ -f "$base/q.$j" ] || continue
  (
    wt="$base/wt$j"
    git -C /repo worktree add -q --detach "$wt" HEAD || exit 2
    for id in $(cat "$base/q.$j"); do
      p=${SEED_PROP:-${id%%-*}}
      SEED_REPO="$wt" SEED_GV="$base/gverif" SEED_HOME="$base/home$j" \
        /verif/tools/seed_check.sh "/verif/seeded/$id/patch.diff" quick $p > "$base/$id.txt" 2>&1
    done
    git -C /repo worktree remove --force "$wt"; rm -rf "$wt"
  ) &
done
wait
for id in $ids; do
  line=$(grep '^SEEDCHECK' "$base/$id.txt" | tail -1)
  caught=$(echo "$line" | sed 's/.*caught_by://')
  echo "$id:$caught"
  grep -E '^\s+\[|BROKEN|SEEDCHECK-ERROR' "$base/$id.txt" | head -3 | cut -c1-200
  [ -n "$line" ] || continue
  python3 - "/verif/seeded/$id/meta.json" $caught <<'PY'
import json,sys
p=sys.argv[1]; c=[x for x in sys.argv[2:] if x!='none' and not x.endswith('(broken)')]
m=json.load(open(p)); old=m.get('detected_by') or []
m['detected_by']=sorted(set(old)|set(c))
json.dump(m,open(p,'w'),indent=1)
PY
done
rm -rf "$base"; git -C /repo worktree prune
