#!/usr/bin/env python3
"""Regenerates /verif/MANIFEST.json from the tables below (kept here so the
manifest is always schema-valid and in step with what gverif implements)."""
import json, os, sys
HERE = os.path.dirname(os.path.dirname(os.path.abspath(__file__)))

BASELINE_OFF = "cd /repo && GOFLAGS=-mod=mod go test -json -vet=off -count=1 -timeout 25m ./..."

# id -> (technique, level text, level note, design ref, engines)
CLAIMED = {}
NA = {}

def claim(pid, technique, text, note, ref):
    CLAIMED[pid] = dict(technique=technique, text=text, note=note, ref=ref)

def extend(pid, technique, text):
    """appends the techniques and clauses added in a later round"""
    CLAIMED[pid]["technique"] += "; " + technique
    CLAIMED[pid]["text"] += " " + text

def na(pid, reason):
    NA[pid] = reason

exec(open(os.path.join(HERE, "tools", "claims.py")).read())

checks = []
for pid in sorted(CLAIMED):
    c = CLAIMED[pid]
    checks.append({
        "property_id": pid,
        "quick_cmd": f"./run.sh {pid} quick",
        "thorough_cmd": f"./run.sh {pid} thorough",
        "evidence_file": f"/verif/evidence/{pid}.json",
        "replay_cmd_template": "cat {path}",
        "engine": "gverif",
        "level_claimed": {"category": "other", "text": c["text"], "design_ref": c["ref"]},
        "level_note": c["note"],
        "technique": c["technique"],
    })
m = {
    "version": 1,
    "setup_cmd": "cd /verif/gverif && GOFLAGS=-mod=mod GOPROXY=off GOSUMDB=off GOTOOLCHAIN=local GOWORK=off go build -o ../bin/gverif ./cmd/gverif",
    "hooks": {
        "guard": "verif",
        "enable": "no hooks: the analyser reads /repo's source as it is; nothing in /repo is instrumented",
        "baseline_off_cmd": BASELINE_OFF,
        "source_commits": [],
        "add_only": True,
    },
    "engines": [{
        "name": "gverif",
        "path": "/verif/gverif",
        "serves_properties": sorted(CLAIMED),
        "kind_free_text": "repository-specific static analyser (go/packages + go/types + go/cfg + go/ssa over /repo's current working tree; no gonum code is executed)",
    }],
    "checks": checks,
    "not_applicable": [{"property_id": p, "reason": NA[p]} for p in sorted(NA)],
    "notes": "All checks are static analyses of /repo's working tree (see DESIGN.md). Exit 0 = held, 1 = VIOLATION line, 2 = the analyser itself could not decide (load/type error, floor not met, unrecognised idiom) and is to be treated as broken, never as held. Known findings: /verif/known_findings.json.",
}
json.dump(m, open(os.path.join(HERE, "MANIFEST.json"), "w"), indent=1)
ids = set(CLAIMED) | set(NA)
want = {"C%02d" % i for i in range(1, 21)}
if ids != want:
    print("WARNING: properties neither claimed nor n/a:", sorted(want - ids), file=sys.stderr)
    sys.exit(1)
print("MANIFEST.json written:", len(checks), "checks,", len(NA), "not applicable")
