#!/usr/bin/env bash
# usage: seed_confirm.sh <seed-dir containing patch.diff and a demo file>
# Confirms, in a scratch worktree outside /repo and /verif, that the patch
# compiles, passes the existing tests of the touched packages, and that the
# demonstration fails with it and passes without it. Removes the worktree.
set -u
export GOFLAGS=-mod=mod GOPROXY=off GOSUMDB=off GOTOOLCHAIN=local GOWORK=off
seed="$(cd "$1" && pwd)"
demo=$(ls "$seed"/*_test.go "$seed"/demo*.go 2>/dev/null | head -1)
[ -f "$seed/patch.diff" ] && [ -n "$demo" ] || { echo "CONFIRM-ERROR missing patch or demo in $seed"; exit 2; }
target=$(grep -m1 -oE "[Pp]lace (this file|it) in(to)? [\`']?[A-Za-z0-9_./-]+" "$demo" | awk '{print $NF}' | tr -d "\`'" | sed 's:/$::')
t2=$(grep -m1 -E "go test" "$demo" | grep -oE "\./[A-Za-z0-9_/.-]+" | tail -1 | sed 's:^\./::; s:/$::')
if [ -n "$t2" ] && [ "$t2" != "..." ]; then target="$t2"; fi
if [ -f "$seed/meta.json" ]; then t=$(jq -r '.demo_dir // empty' "$seed/meta.json"); [ -n "$t" ] && target="$t"; fi
runpat=$(grep -m1 -oE "\-run '?[A-Za-z0-9_|^\$()]+'?" "$demo" | awk '{print $2}' | tr -d "'")
tags=$(grep -m1 -E "go test" "$demo" | grep -oE "\-tags[= ]'?[a-z,]+'?" | head -1 | sed -E "s/-tags[= ]//; s/'//g")
[ -n "$target" ] || { echo "CONFIRM-ERROR cannot find target dir in $demo"; exit 2; }
wt=$(mktemp -d /tmp/seedconfirm.XXXXXX)
git -C /repo worktree add -q --detach "$wt" HEAD || exit 2
cleanup() { git -C /repo worktree remove --force "$wt" 2>/dev/null; rm -rf "$wt"; }
trap cleanup EXIT
cd "$wt"
tagflag=""; [ -n "$tags" ] && tagflag="-tags=$tags"
grep -m1 -E "go test" "$demo" | grep -q -- "-race" && tagflag="$tagflag -race"
pkgs=$(grep '^+++ b/' "$seed/patch.diff" | sed 's:^+++ b/::' | xargs -n1 dirname | sort -u | sed 's:^:./:')
cp "$demo" "$target/zz_seed_demo_test.go"
echo "== demo on clean tree ($target, -run ${runpat:-.} $tagflag)"
if go test -count=1 $tagflag -run "${runpat:-.}" "./$target" >/tmp/seed_clean.$$ 2>&1; then clean=pass; else clean=FAIL; fi
tail -3 /tmp/seed_clean.$$
rm -f "$target/zz_seed_demo_test.go"
git apply "$seed/patch.diff" || { echo "CONFIRM-ERROR patch does not apply"; exit 2; }
echo "== build with patch"
if go build ./... >/tmp/seed_build.$$ 2>&1; then build=ok; else build=FAIL; tail -5 /tmp/seed_build.$$; fi
echo "== existing tests of touched packages: $pkgs"
if go test -count=1 $pkgs >/tmp/seed_tests.$$ 2>&1; then tests=pass; else tests=FAIL; fi
tail -4 /tmp/seed_tests.$$
cp "$demo" "$target/zz_seed_demo_test.go"
echo "== demo with patch"
if go test -count=1 $tagflag -run "${runpat:-.}" "./$target" >/tmp/seed_demo.$$ 2>&1; then withp=pass; else withp=FAIL; fi
tail -5 /tmp/seed_demo.$$
rm -f /tmp/seed_clean.$$ /tmp/seed_build.$$ /tmp/seed_tests.$$ /tmp/seed_demo.$$
echo "CONFIRM seed=$seed build=$build existing_tests=$tests demo_clean=$clean demo_patched=$withp"
[ "$build" = ok ] && [ "$tests" = pass ] && [ "$clean" = pass ] && [ "$withp" = FAIL ]
