#!/usr/bin/env bash
# usage: seed_runall.sh [tier]   -- runs every registered check against every seeded fault
# (apply to /repo, run, revert) and records detected_by in each meta.json.
tier="${1:-quick}"
out=/tmp/seed_runall.txt; : > $out
for d in /verif/seeded/*/; do
  id=$(basename $d)
  /verif/tools/seed_check.sh $d/patch.diff $tier > /tmp/seed_one.txt 2>&1
  line=$(grep '^SEEDCHECK' /tmp/seed_one.txt | tail -1)
  caught=$(echo "$line" | sed 's/.*caught_by://')
  echo "$id:$caught" >> $out
  grep -E '^\s+\[' /tmp/seed_one.txt | head -3 | cut -c1-220 >> $out
  python3 - "$d/meta.json" "$tier" $caught <<'PY'
import json,sys
p=sys.argv[1]; tier=sys.argv[2]; c=[x for x in sys.argv[3:] if x!='none']
m=json.load(open(p)); m['detected_by']=c; m['detected_tier']=tier
json.dump(m,open(p,'w'),indent=1)
PY
done
echo DONE >> $out
