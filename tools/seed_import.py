#!/usr/bin/env python3
"""Copies the confirmed seeded faults from the sub-agents' scratch worktrees
into /verif/seeded/<id>/ (patch.diff, demo, notes.md, meta.json)."""
import json, os, shutil, glob, re, sys
SUMMARY = {
 "c01a/1": ("C01", "internal/asm/f32/ge_noasm.go Ger: row slice a[i*n:(i+1)*n] instead of a[i*lda:i*lda+n]", "noasm/safe build, float32, non-unit increment, lda > n, m >= 2"),
 "c01a/2": ("C01", "blas/gonum/level3cmplx64.go Ctrmm (generated file only): column loop j >= 0 became j > 0 on the Right/Lower/Trans arm", "complex64, one flag arm, alpha != 1 or non-unit diagonal"),
 "c01a/3": ("C01", "Dspmv and regenerated Sspmv: jy := (i+1)*incY drops the negative-increment start offset ky", "uplo=Upper, incX == 1, incY < 0, n >= 2"),
 "c02a/1": ("C02", "Dgeqp3 discards the column count returned by Dlaqps and advances by the requested block size", "min(m,n) > ~132, blocked path, near-dependent columns so that Dlaqps stops a panel early"),
 "c02a/2": ("C02", "Dlarfb Backward/RowWise/Left arm walks work with increment k instead of ldwork (loop converted to Daxpy)", "ldwork > k on an arm no gonum routine calls and the test uses ldwork == k"),
 "c02a/3": ("C02", "Dgels workspace query drops the max(mn, nrhs) factor, reporting less than the enforced minimum", "nrhs > 32*min(m,n) and a caller using the queried length"),
 "c03a/1": ("C03", "Dgesvd path 9: itau := iu + n*n instead of iu + ldworku*n, overlapping tau with the R copy", "m >= 1.6n, lda > n, lwork larger than the query value"),
 "c03a/2": ("C03", "Dgeev copies VL into VR with ldvl as VR's leading dimension", "both eigenvector sets requested and ldvl != ldvr"),
 "c03a/3": ("C03", "Dtgsja sign normalisation scales v under `if wantu` instead of `if wantv`", "exactly one of U and V requested"),
 "c04a/1": ("C04", "SymDense.ScaleSym fast path takes the receiver's row offset from the operand's stride", "receiver or operand is a SliceSym view (different strides)"),
 "c04a/2": ("C04", "index_bound_checks.go (bounds tag only): BandDense.at band test uses Stride instead of KL+KU+1", "-tags bounds and a band with Stride > KL+KU+1"),
 "c04a/3": ("C04", "Dense.RankOne generic fallback skips rows with alpha*x[i] == 0, which also skips the copy of a", "non-*VecDense vector, receiver != a, an exact zero in x or alpha == 0"),
 "c05a/1": ("C05", "mat/shadow.go checkOverlap passes a.Stride instead of min(a.Stride, b.Stride) to rectanglesOverlap after swapping", "two windows of one backing with different strides, one of them unit stride"),
 "c05a/2": ("C05", "offset_appengine.go (safe tag only): offsetComplex divides by the size of complex64", "-tags safe and a CDense overlap query"),
 "c05a/3": ("C05", "Dense.Exp uses a *Dense operand directly instead of copying it; the scaling-and-squaring arm then scales the caller's matrix in place", "a *Dense operand distinct from the receiver with 1-norm > 5.4"),
 "c06a/1": ("C06", "LU.RankOne only initialises piv for a fresh receiver: a reused receiver keeps the pivots of its previous matrix", "receiver != orig that already holds a factorization with other pivots"),
 "c06a/2": ("C06", "Cholesky.SymRankOne copies x with copy(work, rv.RawVector().Data), dropping Inc", "x with Inc != 1, e.g. a ColView"),
 "c06a/3": ("C06", "SymDense.PowPSD eigenvalue check weakened from v <= 0 to v < 0", "an exactly singular PSD input and a negative power"),
 "c07a/1": ("C07", "level2float32.go Ssbmv (generated file only): the y length check uses (n-1)*incX", "float32 routine and incX != incY"),
 "c07a/2": ("C07", "Dgesv drops its len(b) check, leaving it to Dgetrs after Dgetrf has overwritten a and ipiv", "a short b (and, for no panic at all, a singular A)"),
 "c07a/3": ("C07", "dot_amd64.s DotUnitary tail loads 16 bytes of y (MOVUPD), reading one element past the slice", "n % 4 != 0 and y ending at an unmapped page"),
 "c08a/1": ("C08", "l2norm_noasm.go L2NormUnitary gains an unscaled fast path that suffers partial underflow", "noasm/safe build and elements around 1e-162..1e-154"),
 "c08a/2": ("C08", "floats.Within replaced by a binary search that returns the first of a run of equal values", "v equal to a repeated element"),
 "c08a/3": ("C08", "f32 L2NormInc loop bound is len(x) instead of n*incX: n is ignored", "len(x) > n*incX (norm of part of a strided vector)"),
 "c09a/1": ("C09", "jacobianConcurrent takes the per-column mutex only when len(Stencil) > 2", "Concurrent with the Central formula and two jobs of one column finishing together"),
 "c09a/2": ("C09", "dgemmParallel falls back to the serial kernel when GOMAXPROCS == 1 (sgemm.go left untouched)", "NoTrans/Trans arm, >= 4 blocks, k > 64, comparing GOMAXPROCS=1 with more"),
 "c09a/3": ("C09", "Wishart.setV gains an `if w.v != nil { return }` fast path in front of the sync.Once", "first MeanSymTo calls on a shared Wishart made concurrently"),
 "c12a/1": ("C12", "uid.Set.Use returns early when id > maxID, skipping free.Remove(id)", "a no-op RemoveLine releasing an unused ID, then SetLine with that ID, then NewLine"),
 "c12a/2": ("C12", "lines_map_safe.go (safe tag only): WeightedLines.Next lost l.pos++", "-tags safe and a Len() query or an exhausted iterator"),
 "c12a/3": ("C12", "simple.WeightedDirectedGraph.RemoveNode deletes from g.from[from] instead of g.to[from]", "removing a node with out-edges followed by a To query"),
 "c16a/1": ("C16", "rdf issuer.clone shares the ordered slice instead of copying it", "deep hashNDegreeQuads recursion with spare capacity and non-automorphic same-hash neighbours"),
 "c16a/2": ("C16", "mat readFull reports io.ErrUnexpectedEOF when the final data arrives together with io.EOF", "a reader returning data and io.EOF in one call (iotest.DataErrReader)"),
 "c16a/3": ("C16", "dot encode isID accepts pre-quoted IDs whose closing quote is escaped", "an identifier starting with a quote and ending in an odd run of backslashes plus a quote"),
 "c17a/1": ("C17", "array_bounds_checks.go (bounds tag only): twoArray.add uses = instead of +=", "-tags bounds and a length with a prime factor >= 7"),
 "c17a/2": ("C17", "Tukey taper width int(0.5*alphaL)+1 became int(math.Round(0.5*alphaL))", "0 < alpha < 1 with frac(alpha*(N-1)/2) < 0.5"),
 "c17a/3": ("C17", "QuarterWaveFFT.SinCoefficients folds the reversal into the copy, breaking dst == src", "calling with dst aliasing seq"),
 "c18a/1": ("C18", "legendre.go evenThetaZeros n=32: two adjacent digits of one theta value swapped", "exactly n = 32"),
 "c18a/2": ("C18", "fd.Hessian no longer zeroes dst; the concurrent path accumulates into it", "Concurrent with a reused non-empty dst"),
 "c18a/3": ("C18", "hyperdual Tan: E1mag*E2mag became E1mag*E1mag in the mixed term", "E1mag != E2mag (mixed partials)"),
 "c19a/1": ("C19", "lp.Convert copies the equality right-hand side to bNew[nEq:] instead of bNew[nIneq:]", "a general-form LP with equality constraints and nIneq != nEq"),
 "c19a/2": ("C19", "minimize assigns finalStatus/finalError before the select on done, so shutdown tasks overwrite the first status", "a global method and a second limit or Recorder error reached during shutdown"),
 "c19a/3": ("C19", "Bisection.nextStep termination test rewritten to minStep == maxStep || IsInf(step)", "an objective returning +Inf so that the bracket collapses to adjacent floats"),
 "c01b/1": ("C01", "internal/asm/f64/ge_noasm.go GemvT: start offset n*i passed to AxpyInc instead of slicing a[lda*i:]", "noasm/safe build (or non-amd64), Trans, lda > n, m > 1, non-unit increment"),
 "c01b/2": ("C01", "blas64.Gemm derives m,n,k with tA == blas.Trans, so ConjTrans is treated as NoTrans", "tA or tB == blas.ConjTrans with a non-square operand"),
 "c01b/3": ("C01", "sgemmParallel (generated file only): leni/lenj hoisted out of the worker closure and shared by all workers", "float32 Gemm above the parallel threshold with a clipped edge block"),
 "c02b/1": ("C02", "Dlarfg rescaling loop calls Dscal(n-1, rsafmn, x, 1) instead of incX", "|beta| < safmin (tiny input) and incX > 1"),
 "c02b/2": ("C02", "Dgeqp3 ignores the column count returned by Dlaqps and advances by the requested panel width", "blocked path (min(m,n) large) with a panel that Dlaqps stops early"),
 "c02b/3": ("C02", "Dpttrf unrolled loop tests d[i+1] <= 0 instead of d[i+2] in its third lane", "a non-positive pivot first appearing in lane 3 of the 4-way unrolled loop"),
 "c03b/1": ("C03", "Dgesvd path with insufficient-fast workspace: Dgemm reads work[iu:] with leading dimension m instead of ldworku", "wide matrix, jobVT=All path, lwork large enough that ldworku > m"),
 "c03b/2": ("C03", "Dsteqr rescales d[lsv:] with lendsv-lsv elements instead of lendsv-lsv+1 after a scaled QL sweep", "a block whose norm exceeds ssfmax/ssfmin so that scaling is undone"),
 "c03b/3": ("C03", "Dtrexc backward sweep: a failed Dlaexc swap breaks out of the loop instead of returning ok=false", "a 2x2 block swap that Dlaexc rejects as too ill-conditioned"),
 "c04b/1": ("C04", "Dense.Mul matrix x column-vector arm builds the result vector with Inc 1 instead of the receiver's Stride", "receiver a column view (Stride > 1) of a larger matrix"),
 "c04b/2": ("C04", "CDense.reuseAsNonZeroed shape test || became &&", "a non-empty CDense receiver with exactly one mismatched dimension"),
 "c04b/3": ("C04", "SymBandDense.at (bounds build) returns 0 for pj == K instead of only beyond the band", "-tags bounds, an element on the outermost band"),
 "c05b/1": ("C05", "offset_appengine.go sizeOfComplex128 computed from complex64(0)", "-tags safe and CDense views of one backing array"),
 "c05b/2": ("C05", "checkOverlap passes a.Stride instead of min(a.Stride, b.Stride) to rectanglesOverlap", "operands of different strides (a strided receiver against a unit-stride vector)"),
 "c05b/3": ("C05", "VecDense.SubVec merges the two identity guards into `v != a && v != b`, skipping the other operand's overlap check", "receiver identical to one operand, the other a shifted window of the same backing"),
 "c06b/1": ("C06", "QR.factorize resets the cached Q only when the row count changed", "re-factorizing a QR value with a matrix of the same shape after QTo/SolveTo built Q"),
 "c06b/2": ("C06", "Cholesky.ExtendVecSym detects failure by NaN of sqrt(k - dot) instead of dot >= k", "an extension that makes the matrix exactly singular (k == dot)"),
 "c06b/3": ("C06", "LU.UTo indexes dst with the factor's stride (lum.Stride) instead of dst's own", "a destination TriDense whose stride differs from the factor's (a view or reused larger backing)"),
 "c07b/1": ("C07", "Cher2 (generated file only): negative-increment length check of y written with incX", "complex64, incY < 0, |incX| != |incY|, a y that is too short"),
 "c07b/2": ("C07", "Dgetri checks len(ipiv) only after inv(U) has been formed", "a wrong-length ipiv: the panic arrives after a was overwritten"),
 "c07b/3": ("C07", "axpyunitary_amd64.s tail_one loads x[i] with MOVUPS (16 bytes)", "odd length n with x ending at the end of a mapped page (reads one element past the slice)"),
 "c08b/1": ("C08", "floats.Within replaced by sort.SearchFloat64s bisection", "a sorted slice with repeated values"),
 "c08b/2": ("C08", "internal/asm/f32/ge_noasm.go Ger: negative-increment start of x computed from n-1 instead of m-1", "noasm/safe build, float32, incX < 0, m != n"),
 "c08b/3": ("C08", "c128.L2DistanceUnitary loses its `if math.IsInf(scale, 1) return +Inf` guard", "a difference with an infinite component (result NaN instead of +Inf)"),
 "c09b/1": ("C09", "sgemmParallel calls wg.Add(1) inside each worker goroutine instead of wg.Add(parBlocks) before the loop", "float32 Gemm above the parallel threshold (>= 4 blocks of C)"),
 "c09b/2": ("C09", "Wishart.setV drops sync.Once for an `if w.v != nil` check", "first MeanSymTo calls on a shared *Wishart made concurrently"),
 "c09b/3": ("C09", "optimize.minimize hoists the evaluation buffer x out of the worker closure, sharing it among all workers", "Settings.Concurrent >= 2 with overlapping evaluations"),
 "c12b/1": ("C12", "multi.WeightedDirectedGraph.RemoveLine prunes g.to[fid][tid] instead of g.to[tid][fid]", "removing the last line between two nodes of a weighted directed multigraph"),
 "c12b/2": ("C12", "iterator.WeightedLines.WeightedLineSlice (safe build) sets pos = len(lines) instead of l.len", "-tags safe, WeightedLineSlice after a partial iteration"),
 "c12b/3": ("C12", "simple.UndirectedGraph.SetEdge stores new endpoint nodes without AddNode, so their IDs are not marked used", "SetEdge with nodes not yet in the graph followed by NewNode"),
 "c16b/1": ("C16", "dot encoder's numeral regexp accepts an exponent suffix, leaving IDs like 1e5 unquoted", "node IDs or attribute values shaped like floats with an exponent"),
 "c16b/2": ("C16", "Dense.UnmarshalBinary[From] lose the pre-multiplication guard rows > maxLen/cols", "a corrupted header whose rows*cols wraps to a small positive value"),
 "c16b/3": ("C16", "HyperLogLog32/64.UnmarshalBinary validate a local p and never store it into h.p", "decoding into a receiver of a different precision, then Write/Union/MarshalBinary"),
 "c17b/1": ("C17", "fftpack twoArray.add (bounds build only) assigns instead of accumulating", "-tags bounds"),
 "c17b/2": ("C17", "Tukey taper width int(0.5*alphaL)+1 became int(0.5*alphaL+0.5) in both the real and complex windows", "alpha*(N-1)/2 with fractional part below 0.5"),
 "c17b/3": ("C17", "CoefficientsRadix2 n=2 butterfly made sequential: x[1] computed from the already updated x[0]", "exactly length 2"),
 "c18b/1": ("C18", "interp fritschButlandEdgeDerivative right edge: h = xM - xI instead of xE - xI", "FritschButland with at least 3 points and non-uniform spacing at the right edge"),
 "c18b/2": ("C18", "fd.Gradient concurrent path scales by 1/formula.Step instead of the resolved step", "Concurrent gradient with settings.Step different from the formula's default"),
 "c18b/3": ("C18", "hyperdual.Atanh mixed term uses deriv1 instead of deriv for the E1E2 coefficient", "a hyperdual argument with non-zero E1E2mag"),
 "c19b/1": ("C19", "GuessAndCheck.Init resets bestF/bestX only when the dimension changed", "re-using one GuessAndCheck value for a second Minimize run of the same dimension"),
 "c19b/2": ("C19", "lp.Convert copies the equality right-hand side to bNew[nEq:] instead of bNew[nIneq:]", "a general-form LP whose inequality and equality counts differ"),
 "c19b/3": ("C19", "LinesearchMethod.initNextLinesearch accepts projGrad == 0 as a descent direction", "a direction orthogonal to the gradient (zero projected gradient)"),
}
results = {}
for f in sys.argv[1:]:
    for line in open(f):
        m = re.match(r"SEEDCHECK patch=/tmp/wt/(c\d\d[ab])/_out/(\d)/patch.diff tier=(\w+) caught_by:(.*)", line)
        if m:
            results[f"{m.group(1)}/{m.group(2)}"] = m.group(4).split()
for key, (prop, what, needs) in sorted(SUMMARY.items()):
    src = f"/tmp/wt/{key.split('/')[0]}/_out/{key.split('/')[1]}"
    if not os.path.isdir(src):
        print("missing", src); continue
    sid = f"{prop}-{key.split('/')[0][-1]}{key.split('/')[1]}"
    dst = f"/verif/seeded/{sid}"
    os.makedirs(dst, exist_ok=True)
    shutil.copy(f"{src}/patch.diff", f"{dst}/patch.diff")
    demos = [p for p in glob.glob(f"{src}/*.go")]
    for d in demos:
        shutil.copy(d, dst)
    if os.path.exists(f"{src}/notes.md"):
        shutil.copy(f"{src}/notes.md", f"{dst}/notes.md")
    demo = os.path.basename(demos[0]) if demos else None
    head = open(demos[0]).read(1500) if demos else ""
    m = re.search(r"go test[^\n]*", head)
    caught = [c for c in results.get(key, []) if c != "none"]
    meta = {
        "id": sid, "breaks_property": prop, "change": what, "needs_to_manifest": needs,
        "patch": "patch.diff", "demonstration": demo, "demonstration_command": m.group(0).strip() if m else None,
        "author": "independent sub-agent given only the property text and a scratch worktree",
        "confirmed": {
            "how": "tools/seed_confirm.sh in a scratch worktree: go build ./...; go test of the touched packages (existing suite); demonstration on the clean tree and with the patch",
            "build": "ok", "existing_tests_of_touched_packages": "pass", "demonstration_without_patch": "pass", "demonstration_with_patch": "FAIL",
        },
        "checks_run": "tools/seed_check.sh: git -C /repo apply patch.diff; ./run.sh <every claimed property> quick; git -C /repo checkout -- .",
        "detected_by": caught,
    }
    json.dump(meta, open(f"{dst}/meta.json", "w"), indent=1)
print("imported", len(SUMMARY))
