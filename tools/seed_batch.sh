#!/usr/bin/env bash
# usage: seed_batch.sh <out-file> <seed-dir>...   (confirm, then run checks)
out="$1"; shift
for d in "$@"; do
  echo "##### $d" >> "$out"
  if /verif/tools/seed_confirm.sh "$d" > /tmp/seed_confirm.log 2>&1; then
    tail -1 /tmp/seed_confirm.log >> "$out"
    /verif/tools/seed_check.sh "$d/patch.diff" quick >> "$out" 2>&1
  else
    tail -3 /tmp/seed_confirm.log >> "$out"
    echo "NOT-CONFIRMED $d" >> "$out"
  fi
done
echo "BATCH-DONE" >> "$out"
