#!/usr/bin/env bash
# usage: seed_batch2.sh <out> <mode:check|full> <seed dirs...>
out="$1"; mode="$2"; shift; shift
for d in "$@"; do
  echo "##### $d" >> "$out"
  if [ "$mode" = full ]; then
    if /verif/tools/seed_confirm.sh "$d" > /tmp/seed_confirm.log 2>&1; then
      tail -1 /tmp/seed_confirm.log >> "$out"
    else
      tail -3 /tmp/seed_confirm.log >> "$out"; echo "NOT-CONFIRMED $d" >> "$out"; continue
    fi
  fi
  /verif/tools/seed_check.sh "$d/patch.diff" quick >> "$out" 2>&1
done
echo "BATCH-DONE" >> "$out"
