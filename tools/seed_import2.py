#!/usr/bin/env python3
"""usage: seed_import2.py <round-letter> <outdir> [Cxx ...]
Imports the sub-agents' outputs <outdir>/<Cxx>/c<k>/{patch.diff,*_test.go,note.json}
into /verif/seeded/<Cxx>-<round><k>/ and confirms each with tools/seed_confirm.sh
(scratch worktree: build, existing tests of the touched packages, demonstration
with and without the patch). Unconfirmed ones are removed again and listed."""
import json, os, shutil, glob, re, subprocess, sys
rnd, out = sys.argv[1], sys.argv[2]
only = set(sys.argv[3:])
for pdir in sorted(glob.glob(f"{out}/C*/")):
    prop = os.path.basename(pdir.rstrip("/"))
    if only and prop not in only:
        continue
    for src in sorted(glob.glob(f"{pdir}/c*/")):
        k = os.path.basename(src.rstrip("/"))[1:]
        sid = f"{prop}-{rnd}{k}"
        dst = f"/verif/seeded/{sid}"
        if os.path.exists(f"{dst}/meta.json"):
            continue
        need = [f"{src}/patch.diff", f"{src}/note.json"]
        demos = glob.glob(f"{src}/*_test.go")
        if not all(os.path.exists(n) for n in need) or not demos:
            print("INCOMPLETE", src); continue
        os.makedirs(dst, exist_ok=True)
        shutil.copy(f"{src}/patch.diff", f"{dst}/patch.diff")
        demo = f"demo_{sid.lower().replace('-', '')}_test.go"
        shutil.copy(demos[0], f"{dst}/{demo}")
        note = json.load(open(f"{src}/note.json"))
        r = subprocess.run(["/verif/tools/seed_confirm.sh", dst], capture_output=True, text=True)
        last = [l for l in r.stdout.splitlines() if l.startswith("CONFIRM")]
        print(sid, last[-1] if last else r.stdout[-300:] + r.stderr[-300:], flush=True)
        if r.returncode != 0:
            shutil.rmtree(dst)
            print("NOT-CONFIRMED", sid, flush=True)
            continue
        head = open(f"{dst}/{demo}").read(2000)
        m = re.search(r"go test[^\n]*", head)
        meta = {
            "id": sid, "breaks_property": prop, "change": note.get("change"), "needs_to_manifest": note.get("needs_to_manifest"),
            "patch": "patch.diff", "demonstration": demo, "demonstration_command": m.group(0).strip() if m else None,
            "author": "independent sub-agent given only the property text and a scratch worktree",
            "author_tests_run": note.get("tests_run"),
            "confirmed": {
                "how": "tools/seed_confirm.sh in a scratch worktree: go build ./...; go test of the touched packages (existing suite); demonstration on the clean tree and with the patch",
                "build": "ok", "existing_tests_of_touched_packages": "pass", "demonstration_without_patch": "pass", "demonstration_with_patch": "FAIL",
            },
            "checks_run": "tools/seed_check.sh: git apply patch.diff; every registered check (quick); revert",
        }
        json.dump(meta, open(f"{dst}/meta.json", "w"), indent=1)
