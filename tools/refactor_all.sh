#!/usr/bin/env bash
# usage: refactor_all.sh [jobs]  -- runs tools/refactor_check.sh over the whole corpus /verif/refactors in parallel;
# prints every patch that is not silent (each is a false alarm to fix) and a final count.
jobs="${1:-6}"; out=$(mktemp -d /tmp/refall.XXXXXX)
ls -d /verif/refactors/*/ | awk -v j="$jobs" -v o="$out" '{print > (o "/q." (NR % j))}'
for q in "$out"/q.*; do ( /verif/tools/refactor_check.sh $(cat "$q") > "$q.log" 2>&1 ) & done
wait
cat "$out"/q.*.log | grep -E "REFCHECK|BROKEN|\[" | grep -v ": *silent$" | cut -c1-300
echo "REFALL silent=$(cat "$out"/q.*.log | grep -c ': *silent$') of $(ls -d /verif/refactors/*/ | wc -l)"
rm -rf "$out"
