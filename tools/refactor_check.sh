#!/usr/bin/env bash
# usage: refactor_check.sh <dir with r*/patch.diff ...>   (or individual patch files)
# Applies each behaviour-preserving refactoring to a scratch worktree of /repo,
# runs every registered check (quick) with a frozen analyser binary and reports
# every check that does not exit 0: each such report is a FALSE ALARM of the
# machinery (the property still holds) and must be fixed in the checker.
set -u
export GOFLAGS=-mod=mod GOPROXY=off GOSUMDB=off GOTOOLCHAIN=local GOWORK=off
base=$(mktemp -d /tmp/refchk.XXXXXX)
( cd /verif/gverif && go build -o "$base/gverif" ./cmd/gverif ) || exit 2
wt="$base/wt"; git -C /repo worktree add -q --detach "$wt" HEAD || exit 2
mkdir -p "$base/home/evidence"; cp /verif/properties.jsonl /verif/known_findings.json "$base/home/"
props=$(jq -r '.checks[].property_id' /verif/MANIFEST.json)
patches=""
for a in "$@"; do
  a=$(readlink -f "$a")
  if [ -d "$a" ]; then patches="$patches $(ls "$a"/patch.diff "$a"/*/patch.diff "$a"/*/*/patch.diff 2>/dev/null)"; else patches="$patches $a"; fi
done
for p in $patches; do
  ( cd "$wt" && git checkout -q -- . && git clean -fdq && git apply "$p" ) || { echo "REFCHECK $p: patch does not apply"; continue; }
  bad=""
  for id in $props; do
    out=$(GVERIF_REPO="$wt" GVERIF_HOME="$base/home" "$base/gverif" check -property $id -tier quick 2>&1); rc=$?
    if [ $rc -ne 0 ]; then
      bad="$bad $id(exit=$rc)"
      echo "$out" | grep -E '^\s+\[|BROKEN' | head -4 | cut -c1-300 | sed "s|^|    $id: |"
    fi
  done
  echo "REFCHECK $p: ${bad:- silent}"
done
git -C /repo worktree remove --force "$wt"; rm -rf "$base"; git -C /repo worktree prune
