#!/usr/bin/env bash
# usage: refactor_check.sh <dir with r*/patch.diff ...>   (or individual patch files)
# Applies each behaviour-preserving refactoring to a scratch worktree of /repo,
# runs every registered check (quick) with a frozen analyser binary and reports
# every check that does not exit 0: each such report is a FALSE ALARM of the
# machinery (the property still holds) and must be fixed in the checker.
# REFCHECK_RELATED=1 restricts each patch to its own property and those that
# read the same packages (a full run takes hours).
set -u
export GOFLAGS=-mod=mod GOPROXY=off GOSUMDB=off GOTOOLCHAIN=local GOWORK=off
base=$(mktemp -d /tmp/refchk.XXXXXX)
( cd /verif/gverif && go build -o "$base/gverif" ./cmd/gverif ) || exit 2
wt="$base/wt"; git -C /repo worktree add -q --detach "$wt" HEAD || exit 2
mkdir -p "$base/home/evidence"; cp /verif/properties.jsonl /verif/known_findings.json "$base/home/"
props=$(jq -r '.checks[].property_id' /verif/MANIFEST.json)
patches=""
for a in "$@"; do
  a=$(readlink -f "$a")
  if [ -d "$a" ]; then patches="$patches $(ls "$a"/patch.diff "$a"/*/patch.diff "$a"/*/*/patch.diff 2>/dev/null)"; else patches="$patches $a"; fi
done
for p in $patches; do
  ( cd "$wt" && git checkout -q -- . && git clean -fdq && git apply "$p" ) || { echo "REFCHECK $p: patch does not apply"; continue; }
  bad=""
  sel="$props"
  if [ -n "${REFCHECK_RELATED:-}" ]; then
    # only the patch's own property and the properties that read the same packages
    own=$(basename "$(dirname "$p")"); own=${own%%-*}
    case "$own" in
      C01) sel="C01 C07 C08";; C02) sel="C02 C03 C07";; C03) sel="C03 C02 C07 C06";; C04) sel="C04 C05 C07";;
      C05) sel="C05 C04 C06";; C06) sel="C06 C04 C05";; C07) sel="C07 C01 C02";; C08) sel="C08 C01";;
      C09) sel="C09 C19 C18";; C18) sel="C18 C09";; C19) sel="C19 C09";; *) sel="$own";;
    esac
  fi
  for id in $sel; do
    out=$(GVERIF_REPO="$wt" GVERIF_HOME="$base/home" "$base/gverif" check -property $id -tier quick 2>&1); rc=$?
    if [ $rc -ne 0 ]; then
      bad="$bad $id(exit=$rc)"
      echo "$out" | grep -E '^\s+\[|BROKEN' | head -4 | cut -c1-300 | sed "s|^|    $id: |"
    fi
  done
  echo "REFCHECK $p: ${bad:- silent}"
done
git -C /repo worktree remove --force "$wt"; rm -rf "$base"; git -C /repo worktree prune
