#!/usr/bin/env python3
import json, jsonschema, glob, sys
jsonschema.validate(json.load(open('/verif/MANIFEST.json')), json.load(open('/root/.vp/MANIFEST.schema.json')))
es = json.load(open('/root/.vp/EVIDENCE.schema.json'))
n = 0
for f in glob.glob('/verif/evidence/C*.json'):
    jsonschema.validate(json.load(open(f)), es); n += 1
m = json.load(open('/verif/MANIFEST.json'))
for c in m['checks']:
    import os
    if not os.path.exists(c['evidence_file']): print('missing evidence', c['evidence_file'])
print('valid: manifest +', n, 'evidence files')
