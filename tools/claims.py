# Claims table, exec'd by mkmanifest.py.  claim(id, technique, text, note, design_ref)

TRUST = ("Trusted: go/parser, go/types, x/tools v0.29.0; the idiom tables frozen in /verif/gverif after reading the pinned tree. "
         "Only the named structural clauses are decided, for all paths/sites; value-level behaviour is not.")

claim("C01",
      "custom AST/type dataflow lint (stride-unit inference)",
      "Structural necessary conditions of C01 decided for every function and path of the BLAS packages: no operand is indexed, sliced or forwarded with another operand's leading dimension / increment / Stride (STRIDE). A violation of this rule changes which elements are addressed whenever two operands have different strides, which the test suite almost never exercises. Arithmetic correctness of the loop nests is NOT decided.",
      TRUST, "DESIGN.md §3.2, §4 C01")

PENDING = "check not built yet in this round (see DESIGN.md §8 build order); not claimed until it is"
for p in ["C02","C03","C04","C05","C06","C07","C08","C09","C12","C16","C17","C18","C19"]:
    na(p, PENDING)

na("C10", "every clause is an identity between floating-point values of different calls (permutation/affine invariance, quantile coherence, PSD-ness); no clause is visible in the shape of the code, so no sound static rule applies")
na("C11", "consistency of CDF/Quantile/moments/samplers and special-function identities are numerical facts about values; the only structural handle (Prob = exp(LogProb) by delegation) would be a frozen source fragment")
na("C13", "optimality of path weights and validity of paths quantify over graph inputs; the relaxation comparisons have no repository-wide shape that could be checked without freezing the algorithm text")
na("C14", "set-valued outputs versus graph-theoretic definitions; value-level for every clause (the tomita build-tag twin is type-checked under C08's configuration sweep only)")
na("C15", "defining double sums, stationary vectors and fixed points are numerical; no structural clause")
na("C20", "equality with a linear scan, bijectivity of curves and enumerations are input-quantified; pruning conditions are arithmetic")
