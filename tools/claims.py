# Claims table, exec'd by mkmanifest.py.  claim(id, technique, text, note, design_ref)

TRUST = ("Trusted: go/parser, go/types, x/tools v0.29.0; the idiom tables frozen in /verif/gverif after reading the pinned tree. "
         "Only the named structural clauses are decided, for all paths/sites; value-level behaviour is not.")

claim("C01",
      'AST unification of generated twins; SSA parameter write-set summaries (points-to + VTA call graph); stride-unit/extent dataflow lint; transpose-flag equivalence lint; assembly access-window/unit lint',
      "Structural necessary conditions of C01 decided for every function and path of the BLAS packages: every generated (untested) S/C routine is the node-for-node image of its tested D/Z source; the slice operands each of the 142 routines may write equal the BLAS standard's outputs (read-only operands unchanged, kernels analysed through their noasm bodies); no operand is indexed, sliced, length-checked or forwarded with another operand's ld/inc, strided indices are anchored at the negative-increment start offset, matrix rows are addressed through ld; the element count of a vector is one quantity in its length check, start offset and kernel loop bound; no real routine or wrapper that accepts ConjTrans distinguishes it from Trans; loop counters and parameters are used; in the assembly kernels per-iteration access windows and byte/element units are consistent. Arithmetic correctness of the loop nests, rounding and the assembly's arithmetic are NOT decided.",
      TRUST, 'DESIGN.md §3.2, §4 C01')
claim("C02",
      "custom CFG path analysis (workspace-query purity, validate-before-write, status flow) + path-wise symbolic interpretation of workspace-size prologues with a max/min-polynomial dominance prover + stride-unit dataflow lint (incl. vector increments forwarded to BLAS, workspace block layout)",
      "Structural necessary conditions of C02 decided for all paths of the anchored lapack/gonum routines in both workspace modes: a query (lwork == -1) stores only to work[0] and calls only queries/scalar helpers, and on every query-mode return the stored length is proved to be at least the minimum the routine itself enforces (found and repaired: the empty-problem answers of nine routines); arguments are validated before any operand write; every slice use is preceded by a branch on its length; no operand is addressed with a foreign leading dimension, a strided vector handed to BLAS keeps its own increment, a workspace block is used with one leading dimension and the next region starts that many rows on; callee statuses are used and failure is never reported as success; QR/RQ/LQ/QL reflectors reach only multiply/generate routines of the same family. Backward stability, factor structure and that the enforced minimum suffices for the computation are NOT decided.",
      TRUST, "DESIGN.md §3.2, §3.3, §3.3a, §4 C02")
claim("C03",
      "custom CFG path analysis (workspace-query purity, validate-before-write, status flow) + path-wise symbolic interpretation of workspace-size prologues with a max/min-polynomial dominance prover + stride-unit dataflow lint (incl. workspace block layout)",
      "The same rule set as C02 (including the sufficiency of workspace-query answers and the pairing of reflector families: QR/RQ/LQ/QL factors reach only multipliers of the same kind) on the eigenvalue/Schur/SVD routine files and shared auxiliaries (found and repaired the Dlaln2 ldb/ldx defect, the missing Dgebd2 length check, Dsyev's unset query answer for n == 0 and two defects in Dggsvp3 that made mat.GSVD panic or return wrong factors). Orthogonality, residual identities, ordering and convergence are NOT decided.",
      TRUST, "DESIGN.md §3.2, §3.3, §4 C03")
claim("C04",
      "custom AST/type dataflow lint (Data/Stride access-path pairing) + AST twin comparison (reuseAs sync pairs, bounds twins) + SSA constant-nil-receiver analysis + configuration sweep",
      "Structural necessary condition of C04 decided for every function of mat: each Data[...] access and each (Data, Stride) pair given to blas64/lapack64 uses the stride of the same matrix, so a strided view is addressed with its own stride on every path; the receiver-sizing pairs and the bounds/default accessors agree; no slow path (operand without the Raw* fast-path interface) calls a method on a constant nil pointer (found and repaired in Cholesky.SymRankOne). Agreement of dispatch arms with the generic definition is NOT decided.",
      TRUST, "DESIGN.md §3.2, §4 C04")
claim("C07",
      'custom CFG path analysis of argument-check prologues (BLAS, LAPACK, mat); stride-unit lint; generated/bounds twin comparison; assembly access-window lint (loops and tails)',
      "The mostly structural property: for all 281 exported BLAS/LAPACK entry points and every prologue path, no argument-check panic is reachable after an operand write, every slice use is preceded on all paths by a branch on its length, every int/flag/slice parameter is validated (exceptions frozen with reasons), optional operands are used only under their flag, a workspace query touches only work[0]; the generated routines' prologues mirror the tested ones; no operand is addressed with another's stride; in the 56 assembly kernels every loop's memory accesses stay inside the elements the iteration advances over and every tail block inside the elements that remain; in mat no shape panic is reachable after the receiver was sized or written. Exactness of each extent polynomial and the assembly's loop guards are NOT decided.",
      TRUST, 'DESIGN.md §3.3, §4 C07')
claim("C08",
      'configuration sweep through the type checker + exported-API diff; element-wise AST twin comparison; precision-sibling exit-guard comparison; stride-unit/extent and parameter-use lints; assembly access-window/unit lint',
      "The 'in every build configuration' clause decided statically: every tag/arch configuration of the packages with build-tag twins type-checks and exports one API; the r3 safe/unsafe 3x3 builders agree element by element; Go kernels address each operand with its own increment and read every parameter; the float32/complex64 kernels exit early under the same NaN/Inf/zero/empty conditions as their float64/complex128 siblings; assembly kernels keep per-iteration access windows and byte/element units consistent (found and repaired the amd64 Ger kernels' negative-increment handling, which made the default build disagree with noasm). Equality of assembly or noasm loops with the scalar definitions is NOT decided.",
      TRUST, 'DESIGN.md §3.1, §3.11, §4 C08')
claim("C05",
      'SSA parameter write-set summaries (points-to with escape summaries, VTA call graph); custom CFG must-dataflow (overlap-guard-before-kernel-write)',
      "Both mechanisms of C05 decided statically: no exported mat function or method may write through a matrix-typed parameter other than the receiver or dst (187 parameters, interprocedural); every kernel write of the destination that also reads an operand's raw storage is preceded on every path by an overlap guard, identity edge, isolated workspace or guarded delegation; the overlap predicate's element size matches the element type in the default and safe builds. Three pre-existing unguarded arms are reproduced and recorded as known findings. The overlap predicate's arithmetic is NOT decided.",
      TRUST, 'DESIGN.md §3.5, §4 C05')
claim("C06",
      "custom CFG def-use and path analysis of status results (ok/error/Condition discipline); CFG ordering rule norm-before-factorization; field-completeness lint of update-from-original methods; rcond/cond unit inference from the LAPACK estimators to the Condition sinks; SSA constant-nil-receiver analysis",
      "The 'reported through ok/error rather than a silently wrong answer' clause decided for every call site and return in mat, lapack64 and lapack/gonum: no LAPACK/mat status is dropped, no success is returned on the path where a callee failed, every solver can return Condition and does so exactly under cond > ConditionTolerance; the norm used by a condition estimate is taken before the in-place factorization; the reciprocal condition number of the LAPACK estimators is inverted before it is compared with the tolerance or reported; Clone/Scale/SymRankOne/ExtendVecSym/RankOne rebuild every field of the receiver; no factorization method calls through a constant nil pointer (four defects found and repaired: BandCholesky.Cond, LU.RankOne's ok, Cholesky.SymRankOne, TriDense.InverseTri/SolveTo never reporting ill-conditioning). Reconstruction identities and update formulas are NOT decided.",
      TRUST, "DESIGN.md §3.6, §4 C06")

claim("C09",
      "custom AST/CFG concurrency-protocol analysis (captured-variable ordering, WaitGroup/channel pairing, serial/concurrent sibling agreement) + pool typestate + who-may-write lint over package-level state",
      "The synchronisation structure behind C09 decided at every go statement and every pooled workspace: shared writes are mutex- or WaitGroup-ordered with all other accesses, Add/Done/Wait and close/range are paired, serial and concurrent siblings read the same settings, workspaces are never double-put, used after put or retained; outside init no function of the module writes package-level state without a lock (six documented setters tabled). Schedules are not explored and nothing runs; arithmetic tile disjointness and bit-identical sums are NOT decided.",
      TRUST, "DESIGN.md §3.7, §3.8, §4 C09")
claim("C19",
      "custom CFG must-pass-through analysis of the Method.Run shutdown protocol with computed helper summaries; CFG must-assign analysis of optimizer Init methods",
      "The method-side termination protocol of Minimize decided for all Run implementations and paths: result is drained to closure before operation is closed, operation is closed exactly once on every normal path; a state field that an Init/InitDirection/initLocal method assigns on some path is assigned on every returning path, so nothing survives from a previous run. Counters, statuses, convergence and LP optimality are NOT decided.",
      TRUST, "DESIGN.md §3.8, §4 C19")

claim("C12",
      "custom effect-algebra lint over adjacency mutations (converse closure), CFG pairing rules for ID pools and iterator cursors, Weighted-sibling state-update comparison, CFG ordering rule panic-before-write, who-may-compare lint on the absent marker, configuration sweep",
      "The mirror-image, ID-recycling and iterator-cursor mechanisms of C12 decided for every method of the 8 map-backed graph types, uid.Set and 30 iterator types in the default and safe builds; each iterator method and its Weighted sibling make the same cursor/length updates. In the container methods of graph/simple and graph/multi no explicit panic is reachable after a write to the graph, the dense-matrix graphs compare the absent marker only NaN-aware, and a consumed receiver-held iterator is reset before return. Histories are not explored; dense-matrix index arithmetic, Reset implementations and panics inside callees are NOT decided.",
      TRUST, "DESIGN.md §3.9, §4 C12")

claim("C16",
      "custom CFG taint/validation analysis of decoders, encoder/decoder field-agreement lint, self-comparison lint, validity-gate must-pass analysis, generated-twin unification",
      "The decoder-totality mechanisms of C16 decided for all paths of the binary decoders and graph6 accessors: decoded products are overflow-guarded, decoded shift counts/sizes are range-checked, variable-length fields are length-checked, compatibility comparisons are non-trivial, raw accesses are behind IsValid, every field an encoder writes out is stored by the matching decoder (23 codec pairs), hll64.go mirrors hll32.go. Round trips, DOT/N-Quads grammars and RDF canonicalisation are NOT decided.",
      TRUST, "DESIGN.md §3.10, §4 C16")
claim("C17",
      "custom CFG field-definition analysis of Reset, pointwise/sibling lint over window functions, bounds-twin comparison, who-may-write lint over package-level state",
      "The structural clauses of C17 decided: Reset redefines every field on every path, window functions are pointwise and agree with their Complex siblings in weight expression, fftpack's bounds twins agree, the dsp packages keep no unsynchronised package-level mutable state (a transform's answer cannot depend on other goroutines' use). The transforms' arithmetic is NOT decided.",
      TRUST, "DESIGN.md §3.11, §4 C17")
claim("C18",
      "exact constant evaluation of tables in the source (rationals / 320-bit floats); serial-concurrent sibling lint",
      "Table-level exactness decided without execution: stencil moment conditions in exact rationals, every tabulated Gauss-Legendre node/weight checked against P_n to 1e-19 with shape, positivity and sum, Gauss-Hermite shape/symmetry/sum; OriginKnown handled alike by serial and concurrent fd code. Asymptotic quadrature branch, Simpson/Romberg, interpolation and dual numbers are NOT decided.",
      TRUST, "DESIGN.md §3.11, §4 C18")

na("C10", "every clause is an identity between floating-point values of different calls (permutation/affine invariance, quantile coherence, PSD-ness); no clause is visible in the shape of the code, so no sound static rule applies")
na("C11", "consistency of CDF/Quantile/moments/samplers and special-function identities are numerical facts about values; the only structural handle (Prob = exp(LogProb) by delegation) would be a frozen source fragment")
na("C13", "optimality of path weights and validity of paths quantify over graph inputs; the relaxation comparisons have no repository-wide shape that could be checked without freezing the algorithm text")
na("C14", "set-valued outputs versus graph-theoretic definitions; value-level for every clause (the tomita build-tag twin is type-checked under C08's configuration sweep only)")
na("C15", "defining double sums, stationary vectors and fixed points are numerical; no structural clause")
na("C20", "equality with a linear scan, bijectivity of curves and enumerations are input-quantified; pruning conditions are arithmetic")
