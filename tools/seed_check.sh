#!/usr/bin/env bash
# usage: seed_check.sh <patch.diff> [tier] [property ids...]
# Applies the patch to the analysed tree, runs the registered checks, reverts it.
# Default: the tree is /repo and the checks are the registered ./run.sh commands.
# For long batches set SEED_REPO=<scratch worktree of /repo at the same commit>
# and SEED_GV=<frozen copy of bin/gverif>: the same analysis then runs against
# the scratch tree (GVERIF_REPO) with its evidence under SEED_HOME, so /repo,
# /verif/evidence and the analyser sources stay free for other work.
set -u
patch="$(readlink -f "$1")"; tier="${2:-quick}"; shift; shift 2>/dev/null
props="$*"
[ -n "$props" ] || props=$(jq -r '.checks[].property_id' /verif/MANIFEST.json)
repo="${SEED_REPO:-/repo}"
cd "$repo"
[ -z "$(git status --porcelain)" ] || { echo "SEEDCHECK-ERROR $repo not clean"; exit 2; }
git apply "$patch" || { echo "SEEDCHECK-ERROR patch does not apply"; exit 2; }
trap 'git -C "$repo" checkout -- . ; git -C "$repo" clean -fdq' EXIT
caught=""
if [ -n "${SEED_GV:-}" ]; then
  home="${SEED_HOME:-/tmp/seed_home}"; mkdir -p "$home/evidence"
  cp /verif/properties.jsonl /verif/known_findings.json "$home/"
fi
for p in $props; do
  if [ -n "${SEED_GV:-}" ]; then
    out=$(GOFLAGS=-mod=mod GOPROXY=off GOSUMDB=off GOTOOLCHAIN=local GOWORK=off GVERIF_REPO="$repo" GVERIF_HOME="$home" "$SEED_GV" check -property $p -tier $tier 2>&1); rc=$?
  else
    out=$(cd /verif && ./run.sh $p $tier 2>&1); rc=$?
  fi
  if [ $rc -eq 1 ]; then caught="$caught $p"; echo "--- $p exit=1"; echo "$out" | grep -E '^\s+\[' | head -4 | cut -c1-260; 
  elif [ $rc -ne 0 ]; then echo "--- $p exit=$rc (BROKEN)"; echo "$out" | grep BROKEN | head -3 | cut -c1-300; caught="$caught $p(broken)"; fi
done
echo "SEEDCHECK patch=$patch tier=$tier caught_by:${caught:- none}"
