#!/usr/bin/env bash
# usage: seed_check.sh <patch.diff> [tier] [property ids...]
# Applies the patch to /repo, runs the registered checks, reverts it.
set -u
patch="$(readlink -f "$1")"; tier="${2:-quick}"; shift; shift 2>/dev/null
props="$*"
[ -n "$props" ] || props=$(jq -r '.checks[].property_id' /verif/MANIFEST.json)
cd /repo
[ -z "$(git status --porcelain)" ] || { echo "SEEDCHECK-ERROR /repo not clean"; exit 2; }
git apply "$patch" || { echo "SEEDCHECK-ERROR patch does not apply"; exit 2; }
trap 'git -C /repo checkout -- . ; git -C /repo clean -fdq' EXIT
caught=""
mkdir -p /tmp/seedcheck_ev
for p in $props; do
  out=$(cd /verif && GVERIF_HOME_EVIDENCE= ./run.sh $p $tier 2>&1); rc=$?
  if [ $rc -eq 1 ]; then caught="$caught $p"; echo "--- $p exit=1"; echo "$out" | grep -E '^\s+\[' | head -4 | cut -c1-260; 
  elif [ $rc -ne 0 ]; then echo "--- $p exit=$rc (BROKEN)"; echo "$out" | grep BROKEN | head -3 | cut -c1-300; caught="$caught $p(broken)"; fi
done
echo "SEEDCHECK patch=$patch tier=$tier caught_by:${caught:- none}"
