#!/usr/bin/env bash
# usage: seed_par.sh [tier] [jobs] [seed ids...]
# Runs every registered check against every seeded fault (or the named ones)
# in <jobs> scratch worktrees of /repo (outside /repo and /verif), with a
# frozen copy of bin/gverif, and records detected_by in each meta.json.
# The worktrees are removed at the end.
set -u
export GOFLAGS=-mod=mod GOPROXY=off GOSUMDB=off GOTOOLCHAIN=local GOWORK=off
tier="${1:-quick}"; jobs="${2:-6}"; shift; shift 2>/dev/null
ids="$*"; [ -n "$ids" ] || ids=$(ls /verif/seeded | grep -E '^C[0-9]+-')
base=$(mktemp -d /tmp/seedpar.XXXXXX)
( cd /verif/gverif && go build -o "$base/gverif" ./cmd/gverif ) || exit 2
i=0
for id in $ids; do echo "$id" >> "$base/q.$((i % jobs))"; i=$((i+1)); done
for j in $(seq 0 $((jobs-1))); do
  [ -f "$base/q.$j" ] || continue
  (
    wt="$base/wt$j"
    git -C /repo worktree add -q --detach "$wt" HEAD || exit 2
    for id in $(cat "$base/q.$j"); do
      SEED_REPO="$wt" SEED_GV="$base/gverif" SEED_HOME="$base/home$j" \
        /verif/tools/seed_check.sh "/verif/seeded/$id/patch.diff" "$tier" > "$base/$id.txt" 2>&1
    done
    git -C /repo worktree remove --force "$wt"; rm -rf "$wt"
  ) &
done
wait
out=/tmp/seed_par.txt; : > $out
for id in $ids; do
  line=$(grep '^SEEDCHECK' "$base/$id.txt" | tail -1)
  caught=$(echo "$line" | sed 's/.*caught_by://')
  echo "$id:$caught" >> $out
  grep -E '^\s+\[|BROKEN|SEEDCHECK-ERROR' "$base/$id.txt" | head -4 | cut -c1-240 >> $out
  [ -n "$line" ] || continue
  python3 - "/verif/seeded/$id/meta.json" "$tier" $caught <<'PY'
import json,sys
p=sys.argv[1]; tier=sys.argv[2]; c=[x for x in sys.argv[3:] if x!='none']
m=json.load(open(p)); m['detected_by']=c; m['detected_tier']=tier
json.dump(m,open(p,'w'),indent=1)
PY
done
rm -rf "$base"; git -C /repo worktree prune
echo DONE >> $out
