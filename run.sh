#!/usr/bin/env bash
# usage: ./run.sh <property-id> [quick|thorough]
# Rebuilds the analyser if needed (offline) and decides the property from
# /repo's current working tree.
set -u
cd "$(dirname "$0")"
export GOFLAGS=-mod=mod GOPROXY=off GOSUMDB=off GOTOOLCHAIN=local GOWORK=off
unset GOARCH GOOS
prop="$1"; tier="${2:-${VERIF_TIER:-quick}}"
mkdir -p bin evidence
( cd gverif && go build -o ../bin/gverif ./cmd/gverif ) || { echo "BROKEN: property=$prop analyser does not build"; exit 2; }
exec ./bin/gverif check -property "$prop" -tier "$tier"
